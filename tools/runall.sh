#!/bin/bash
# usage: tools/runall.sh <seed> [tier] [props...]  -> one summary line per property
seed=${1:-0}; tier=${2:-quick}; shift; shift
props="$@"
[ -z "$props" ] && props=$(python3 -c "import json;print(' '.join(c['property_id'] for c in json.load(open('/verif/MANIFEST.json'))['checks']))")
for p in $props; do
  out=$(VERIF_SEED=$seed "$(dirname "$0")/../check" $p --tier $tier 2>&1); rc=$?
  echo "rc=$rc $(echo "$out" | grep "^$p tier" | tail -1)"
  echo "$out" | grep "^VIOLATION\|^API-SUMMARY\|HARNESS\|BUILD-ERROR" | cut -c1-400 | head -8
done
