#!/usr/bin/env python3
"""Run the repository's pinned test suite (guard off) and compare with BASELINE.json's stable_pass list.
usage: baseline.py [repo_dir] [--rebuild]   exit 0 iff every stable_pass test passed."""
import json, os, subprocess, sys, tempfile, xml.etree.ElementTree as ET
repo = '/repo'
args = [a for a in sys.argv[1:] if not a.startswith('--')]
if args: repo = args[0]
if '--rebuild' in sys.argv:
    r = subprocess.run(['/venv/bin/python', 'setup.py', 'build_ext', '--inplace', '-j8'], cwd=repo, stdout=subprocess.PIPE, stderr=subprocess.STDOUT, text=True)
    if r.returncode: print(r.stdout[-3000:]); sys.exit(3)
base = json.load(open('/root/.vp/BASELINE.json'))
fd, junit = tempfile.mkstemp(suffix='.xml'); os.close(fd)
env = dict(os.environ); env.pop('PYTHONPATH', None)
if repo != '/repo':
    env['PYTHONPATH'] = os.path.join(repo, 'src')
r = subprocess.run(['/venv/bin/python', '-m', 'pytest', '-ra', '-q', '-p', 'no:cacheprovider', '--timeout=900', '--continue-on-collection-errors', '--junitxml=' + junit], cwd=repo, env=env, stdout=subprocess.PIPE, stderr=subprocess.STDOUT, text=True)
passed = set()
for tc in ET.parse(junit).getroot().iter('testcase'):
    name = tc.get('classname') + '::' + tc.get('name')
    if not any(ch.tag in ('failure', 'error', 'skipped') for ch in tc):
        passed.add(name)
os.unlink(junit)
missing = [t for t in base['stable_pass'] if t not in passed]
print('stable_pass=%d passed_now=%d missing=%d' % (len(base['stable_pass']), len(passed), len(missing)))
for t in missing: print('  NOT PASSING:', t)
if missing: print(r.stdout[-4000:])
sys.exit(1 if missing else 0)
