#!/usr/bin/env python3
"""Summarise replay files of a property: one line per class, compact."""
import json, glob, sys
prop = sys.argv[1]
skip = set(sys.argv[2:])
seen = set()
for f in sorted(glob.glob('/verif/replays/%s/*.json' % prop)):
    r = json.load(open(f))
    t = r['class']['tags']
    key = tuple(sorted((k, json.dumps(v)) for k, v in t.items() if k not in skip))
    if key in seen: continue
    seen.add(key)
    on = {k: v for k, v in t.items() if not (v is False or v is None or (v == 1 and v is not True))}
    v = r['first']
    print(r['class']['check'], r['class']['api'], json.dumps(on, sort_keys=True), '| case', json.dumps(v['case']), '| exp', v['expected'], 'obs', v['observed'], '| n=%d' % r['count_in_run'])
