#!/usr/bin/env python3
"""Maintain /verif/known_findings.json from the table in this file (run by hand, never by a check)."""
import json, os, subprocess
VERIF = os.path.dirname(os.path.dirname(os.path.abspath(__file__)))

def sha(msg_prefix):
    out = subprocess.run(['git', '-C', '/repo', 'log', '--format=%h %s'], stdout=subprocess.PIPE, text=True).stdout
    for ln in out.splitlines():
        h, s = ln.split(' ', 1)
        if s.startswith(msg_prefix):
            return h
    raise SystemExit('no commit starting with %r' % msg_prefix)

FIXED = [
    # (id, property, commit message prefix, what failed, witness)
    ('F01', 'C01', 'fix: clamp psi end-relaxation scan of the last row to the rolling buffer in dtw.distance',
     'dtw.distance with window < length and psi_2e beyond the rolling buffer read stale cells: distance([0,0,1],[0,0,2.5],window=1,psi=(0,0,0,3)) = 0.0, expected 1.5', None),
    ('F02', 'C02', 'fix: do not square penalty, max_step and max_dist in the euclidean-inner-distance DTW kernels',
     "C euclidean kernels squared penalty/max_step/max_dist: distance_fast([0],[1,1],inner_dist='euclidean',penalty=.5) = 2.25, Python 2.5", None),
    ('F03', 'C02', 'fix: read the last-column cell explicitly for psi end-relaxation in the C distance kernels',
     'stale curidx for psi_1e after max_step continue / pruning break: distance_fast([0],[1,2.5],psi=(0,1,0,0),max_step=1.2) = 1.0, expected inf', None),
    ('F04', 'C08', 'fix: clamp the psi end-relaxation scan of the last row to the row buffer in the C distance kernels',
     'dtw_distance read before its row buffer for window=1, psi_2e=l2 (heap-buffer-overflow read under ASan)', None),
    ('F05', 'C09', 'fix: pass only_ub on to the C engine in dtw.distance(use_c=True)',
     'distance(..., only_ub=True, use_c=True) dropped only_ub and returned the DTW distance', None),
    ('F06', 'C03', 'fix: compute the pruning bound of use_pruning in the internal representation and for n-dim series',
     'Python use_pruning returned inf when DTW == ED (sqrt->square round trip): distance([0,1],[2.5,2.5,0],use_pruning=True); dtw_ndim.distance(use_pruning=True) raised ValueError', None),
    ('F07', 'C09', 'fix: only_ub returns the Euclidean distance itself, also for n-dim series',
     'distance(only_ub=True) returned the squared Euclidean distance in both engines; Python n-dim raised', None),
    ('F08', 'C09', 'fix: n-dimensional Euclidean distance in C accumulated into its own loop counter',
     'ed_cc.distance_ndim / ub_euclidean_ndim returned 0 (loop variable shadowed the accumulator); padding compared with component 0 only', None),
    ('F09', 'C03', 'fix: relax the squared Euclidean pruning bound in C by a few ulp',
     'C use_pruning returned inf when DTW == ED: distance_fast([2.5,1,0],[0,0],use_pruning=True)', None),
    ('F10', 'C03', 'fix: early abandoning ignored the psi relaxation at the beginning of the series',
     'max_dist with psi begin-relaxation returned inf below the threshold in both engines: distance([1],[2.5,0,0],psi=1,max_dist=1.2), true distance 1.0', None),
    ('F11', 'C03', 'fix: C warping_paths read the distance from the wrong cell after an early-abandoning break',
     'warping_paths_fast([0],[0,0,0],penalty=.5,max_dist=.25) returned 0.0 instead of inf', None),
    ('F12', 'C03', 'fix: C warping_paths compared the internal (squared) distance with the untransformed max_dist',
     'warping_paths_fast(a,b,max_dist=3) with distance 2 returned inf (4 > 3)', None),
    ('F13', 'C03', 'fix: the euclidean-inner-distance warping-paths kernel pruned with the squared-euclidean bound',
     "warping_paths_fast([1],[2.5,2.5,1],inner_dist='euclidean',use_pruning=True) returned 1.5 instead of 3.0", None),
    ('F14', 'C09', 'fix: C lb_keogh started the upper envelope at 0 instead of -infinity',
     'C lb_keogh differed from Python on negative data: lb_keogh([1],[-0.5,-2]) = 1.0 vs 1.5', None),
    ('F15', 'C20', 'fix: dtw_cc_numpy imported dtw_cc by an absolute name that does not resolve inside the package',
     'every C-engine call on a 2-D/3-D NumPy container raised AttributeError (module dtaidistance has no attribute DTWSeriesMatrix)', None),
    ('F16', 'C20', 'fix: accept array.array series in the C pointer container as documented',
     'distance_matrix(list of array.array, use_c=True) raised AttributeError (.ctypes)', None),
    ('F17', 'C04', "fix: warping_paths_fast used the caller's full matrix as compact buffer although rows are shifted",
     'warping_paths_fast([1.5,1.5],[1.5,0],window=1,psi=1) returned 0.0 / misplaced cells for window < length', None),
    ('F18', 'C08', 'fix: dtw_expand_wps_slice wrote the top row of a slice one cell too far to the right',
     'heap-buffer-overflow write in dtw_expand_wps_slice for l1=1,l2=4,window=2, slice [0:1,1:3]', None),
    ('F19', 'C04', 'fix: warping_paths marked the whole last row with -1 when no relaxed end point exists',
     'warping_paths([0],[2.5,0,0],psi=(0,1,0,0),max_dist=1.6) overwrote the last row with -1 (Python and C)', None),
    ('F20', 'C04', 'fix: rewrite dtw_expand_wps_slice(_affinity) on top of dtw_wps_loc_columns',
     'slices starting at rb>=1 or inside regions C/D were misplaced and written out of bounds (l1=2,l2=1,window=3, slice [1:2,0:2])', None),
    ('F21', 'C04', 'fix: psi end-relaxation in the C warping-paths kernels ignored the window',
     'warping_paths_fast([1.5,0],[1.5,1.5,1.5],window=1,psi=1) returned 0.0, expected 1.5; -1 marks misplaced', None),
    ('F22', 'C04', 'fix: band of the C warping-paths matrix was one column too wide when the second series is longer',
     'l1=4,l2=5,window=3: C matrix cell (4,1) filled although out of band', None),
    ('F23', 'C05', 'fix: dtw.warping_path backtracked without the penalty and from the wrong cell under psi end-relaxation',
     'warping_path([0,2.5],[0,1,1],penalty=2) returned a path costlier than the distance; warping_path([0,0],[0,1],psi=(0,0,0,1)) = [(0,0)]', None),
    ('F24', 'C05', 'fix: best_path2 used np.Inf, which NumPy 2 removed', 'best_path2 raised AttributeError on matrices with -1 marks', None),
    ('F25', 'C05', 'fix: dtw_warping_path(_ndim) started back-tracking in the corner instead of the relaxed end cell',
     'warping_path_fast([0,0],[1,0,2.5],psi=1) = [(0,1)] (does not reach the relaxed corner)', None),
    ('F26', 'C06', 'fix: square distance matrix for a block that selects no pair raised IndexError',
     'distance_matrix(series, block=((0,1),(0,1))) (no pair selected, square form) raised IndexError', None),
    ('F27', 'C08', 'fix: only_triu in the affinity warping-paths kernels wrote past the row when l1 > l2',
     'heap-buffer-overflow in dtw_warping_paths_affinity_ndim for l1=4, l2=2, only_triu', None),
    ('F28', 'C08', 'fix: dtw_dba_ptrs sized the warping-paths buffer for the longest series only',
     'heap-buffer-overflow in dtw_dba_ptrs for t=4, lengths {3,4}, window=1', None),
    ('F29', 'C08', 'fix: psi_2b larger than the rolling buffer wrote past the first row in dtw.distance / dtw_distance',
     'heap-buffer-overflow in dtw_distance (IndexError in Python) for l1=l2=6, window=1, psi_2b=6', None),
    ('F30', 'C07', 'fix: n-dim distance matrix with multiprocessing passed use_ndim twice',
     'dtw_ndim.distance_matrix(series, parallel=True, use_c=False) raised TypeError (use_ndim given twice) in every worker', None),
    ('F31', 'C17', 'fix: dp returned a 2-tuple on early exit and aborted when the second sequence is empty',
     "needleman_wunsch('A', '') raised ValueError (2-tuple unpacked into 3)", None),
    ('F32', 'C17', 'fix: Needleman-Wunsch border ignored the gap cost of the substitution function',
     "needleman_wunsch('A','BAC', substitution=make_substitution_fn({}, gap=.5)) returned -0.5, optimum 0.0", None),
    ('F33', 'C19', "fix: squash(method='gaussian') always raised ValueError", "squash(X, method='gaussian') raised ValueError for every input", None),
    ('F34', 'C19', "fix: document the formula distance_to_similarity(method='reverse') actually computes",
     "docstring said r - D, code computes (r - D) / r", None),
    ('F35', 'C19', 'fix: default scale of the similarity transforms was 0 for all-zero input',
     'distance_to_similarity(zeros) and squash(X, x0=0) returned NaN / raised ZeroDivisionError under the default scale', None),
    ('F36', 'C14', 'fix: subsequence search reported candidates pruned by the lower bound with distance 0',
     'subsequence_search(q,S,max_dist=m,use_lb=True).kbest_matches(k=None): pruned candidates listed with distance 0.0, ranked first', None),
    ('F37', 'C14', 'fix: kbest_matches(k) returned the cached larger result when a smaller k was asked later',
     'kbest_matches(3) followed by kbest_matches(1) on one object returned 3 matches', None),
    ('F38', 'C14', 'fix: subsequence search applied LB_Keogh although psi-relaxation was requested',
     'query [0,1,2.5], candidate [1,1,2.5,2.5], psi=1 (distance 0) pruned by LB_Keogh: missing from the k best', None),
    ('F39', 'C16', 'fix: k-means++ seeding asked numpy for more candidates than series with non-zero weight',
     'KMeans(k=2, initialize_sample_size=2).fit([[0,0],[0,0],[0,1.5,1.5]]) raised ValueError (Fewer non-zero entries in p than size) for some random draws', None),
    ('F40', 'C18', 'fix: LocalConcurrences looked for the C extension inside the subsequence sub-package',
     'LocalConcurrences(use_c=True) raised AttributeError (dtw_cc is None: from . import dtw_cc in the sub-package)', None),
    ('F41', 'C18', 'fix: LocalConcurrences._reset_wp_mask called wps_positivize without the intersection argument',
     'kbest_matches on a compact alignment raised TypeError (8 of 9 arguments)', None),
    ('F42', 'C18', 'fix: warping_paths_affinity failed with the default penalty=None', 'dtw.warping_paths_affinity(s1, s2) raised TypeError (unsupported operand None)', None),
    ('F43', 'C18', 'fix: the C affinity kernels squared the penalty', 'warping_paths_affinity_fast(penalty=.1) differed from the Python matrix (C used .01)', None),
    ('F44', 'C18', 'fix: the buffer zone of local-concurrence matches flipped signs instead of masking',
     'kbest_matches(buffer=-1 or 1) on a full matrix: later matches reused cells / ran through -inf cells turned +inf', None),
    ('F45', 'C20', 'fix: lb_keogh(use_c=True) handed non-contiguous NumPy views to C without copying',
     'dtw.lb_keogh(strided or reversed view, use_c=True) computed the bound from memory next to the series', None),
    ('F46', 'C20', 'fix: SeriesContainer did not detect the dimensionality of a list of array.array',
     'dba / dba_loop on a list of array.array raised TypeError (average of shape (t, False))', None),
    ('F47', 'C20', 'fix: dba_loop(use_c=True) required the initial average to have a .copy() method',
     'dba_loop(list of array.array, use_c=True) raised AttributeError (array.array has no copy)', None),
    ('F48', 'C20', "fix: Hierarchical.fit wrote only_triu into the caller's options dictionary",
     "opts={'window':2}; Hierarchical(dtw.distance_matrix, opts).fit(S); dtw.distance(a, b, **opts) raised TypeError (only_triu), distance_matrix(S, **opts) came back half filled", None),
    ('F49', 'C20', "fix: SubsequenceSearch modified the caller's dists_options dictionary",
     'subsequence_search(q, S, dists_options=opts, max_dist=m).kbest_matches(2) left max_dist = best distance found (and use_c) in opts; a later distance_matrix(S, **opts) returned inf entries', None),
    ('F50', 'C20', 'fix: LocalConcurrences.kbest_matches(restart=True) did not restart on a full matrix',
     'lc = local_concurrences(s, None, ...); lc.kbest_matches(k=2) twice on the Python (non-compact) matrix: the second call returned the 3rd and 4th best matches', None),
    ('F51', 'C20', 'fix: dba_loop(use_c=True) kept the memory order of a Fortran-ordered initial average',
     'dba_loop(S, c=F-contiguous 2-D array, thr=None, use_c=True) returned a different barycenter than with the same values in C order (the copy made by repair F47 kept order K; found when the exactly F-contiguous container form was added)', None),
    ('F52', 'C20', 'fix: dba(use_c=True) handed non-contiguous series to the C warping path',
     'dba([strided views], c, use_c=True) read the memory between the samples: result depended on what lies next to the series (poison 777 vs -555 gave different barycenters)', None),
]

OPEN = [
    {'id': 'K01', 'property': 'C05', 'status': 'open', 'check': 'path',
     'api': ['best_path(py matrix)', 'best_path(c matrix)', 'best_path(py matrix,int,penalty)', 'best_path(c matrix,int,penalty)',
             'best_path2(py matrix)', 'best_path_compact'],
     'engine': None, 'match': {'psi_end': True},
     'what': 'best_path / best_path2 / best_path_compact called directly on a matrix whose relaxed end cells are marked with -1 can leave the relaxed row/column '
             '(ties with the marked cells are followed diagonally; the functions do not know psi): dtw.best_path(dtw.warping_paths([0,0],[1,0,2.5],psi=1)[1]) = [(0,1)]. '
             'warping_path / warping_path_fast were repaired (they now start from the selected end cell).',
     'witness': {'s1': [0.0, 0.0], 's2': [1.0, 0.0, 2.5], 'psi': 1}},
    # {id, property, status:'open', check, api, engine, match:{}, what, witness}
]

def main():
    ents = []
    for fid, prop, msg, what, wit in FIXED:
        h = sha(msg)
        ents.append({'id': fid, 'property': prop, 'status': 'fixed', 'fixed_by': h, 'what': what,
                     'line': 'fixed: property=%s %s %s' % (prop, h, what), 'witness': wit})
    ents.extend(OPEN)
    with open(os.path.join(VERIF, 'known_findings.json'), 'w') as f:
        json.dump({'comment': 'open entries are matched by the checks (KNOWN-FINDING lines); fixed entries suppress nothing. Never written at run time.',
                   'findings': ents}, f, indent=1)
    print(len(ents), 'entries')

if __name__ == '__main__':
    main()
