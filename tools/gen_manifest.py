#!/usr/bin/env python3
"""Regenerate /verif/MANIFEST.json from the table below (single source of truth)."""
import json
import os

VERIF = os.path.dirname(os.path.dirname(os.path.abspath(__file__)))

BASELINE_CMD = ("cd /repo && /venv/bin/python setup.py build_ext --inplace -q >/dev/null 2>&1; "
                "cd /repo && /venv/bin/python -m pytest -ra -q -p no:cacheprovider --timeout=900 "
                "--continue-on-collection-errors --junitxml=/tmp/baseline.junit.xml")

E1 = 'bounded-exhaustive input x configuration exploration of the real code against a definitional reference model (explicit-state, no sampling)'
E2 = 'breadth-first exploration of operation histories on live objects with a fresh-object differential oracle'

CHECKS = {
    # id: (technique, engine, level text, level note, design ref)
}

NOT_YET = {}


def entry(pid, technique, engine, text, note, ref):
    return {
        'property_id': pid,
        'quick_cmd': './check %s --tier quick' % pid,
        'thorough_cmd': './check %s --tier thorough' % pid,
        'evidence_file': 'evidence/%s.json' % pid,
        'replay_cmd_template': './check %s --replay {path}' % pid,
        'engine': engine,
        'level_claimed': {'category': 'model_checking', 'text': text, 'design_ref': ref},
        'level_note': note,
        'technique': technique,
    }


def main():
    from manifest_table import CHECKS, NOT_APPLICABLE, ENGINES, HOOK_COMMITS
    m = {
        'version': 1,
        'setup_cmd': 'cd /verif && /venv/bin/python -B tools/setup_check.py',
        'hooks': {
            'guard': 'DTAIDISTANCE_VERIF',
            'enable': 'not needed: no guarded code was added to the repository; every seam is reached from outside '
                      '(link-time replacement of libgomp/tsan symbols, sanitizer builds, harness-side patching of '
                      'multiprocessing.Pool / numpy.random / random inside the harness processes)',
            'baseline_off_cmd': BASELINE_CMD,
            'source_commits': HOOK_COMMITS,
            'add_only': True,
        },
        'engines': ENGINES,
        'checks': [entry(pid, *CHECKS[pid]) for pid in sorted(CHECKS)],
        'not_applicable': [{'property_id': k, 'reason': v} for k, v in sorted(NOT_APPLICABLE.items())],
        'notes': 'All checks snapshot /repo (VERIF_REPO) and rebuild what they need from its current working tree; '
                 'builds are content-addressed under /verif/.cache. Exit 0 = held on everything explored, 1 = VIOLATION, '
                 '2 = BUILD-ERROR/HARNESS-ERROR (infrastructure, no verdict). Known findings: /verif/known_findings.json.',
    }
    with open(os.path.join(VERIF, 'MANIFEST.json'), 'w') as f:
        json.dump(m, f, indent=1)
    print('MANIFEST.json: %d checks, %d not_applicable' % (len(m['checks']), len(m['not_applicable'])))


if __name__ == '__main__':
    import sys
    sys.path.insert(0, os.path.dirname(os.path.abspath(__file__)))
    main()
