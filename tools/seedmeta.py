#!/usr/bin/env python3
"""Write seeded/<id>/meta.json from notes.md + result.json, and print the DESIGN table."""
import json, os, glob, re
VERIF = os.path.dirname(os.path.dirname(os.path.abspath(__file__)))
NEEDS = {
 'C01-psi1b-guard-dropped': 'narrow window (compact two-row buffer in use) + psi_1b larger than the window + a late start being cheaper',
 'C01b-psi2e-slice-clamp-dropped': 'window narrower than half of len(s2) + psi_2e beyond the in-band width of the last row (reverts repair F01)',
 'C02-pruning-sc-guard-psi2b': 'C engine + psi 4-tuple with psi_1b > psi_2b + max_dist or use_pruning',
 'C02b-ndim-eu-maxstep-before-sqrt-2': 'C engine + ndim >= 2 + euclidean inner distance + max_step with a step between sqrt(max_step) and max_step',
 'C03-pruning-ec-psi1b': 'C engine + psi 4-tuple with psi_2b > psi_1b + max_dist/use_pruning + best path starting at a relaxed column',
 'C03b-pruning-tightest-bound-unsquared': 'C engine + use_pruning together with max_dist m > 1 and sqrt(m) < DTW < m',
 'C04-psi-end-scan-unequal': 'C warping paths + unequal lengths + window + psi end-relaxation >= window with the best end far from the corner',
 'C04b-loc-columns-regionA-ldiff': 'compact matrix expansion with l1 >= l2 + 3 and a narrow window (l1 = 10, l2 = 7, window 1)',
 'C05-bestpath-regionC-penalty': 'C best path + narrow window (region C of the compact layout exists) + penalty > 0',
 'C05b-c-path-end-cell-bounds': 'warping_path_fast + unequal lengths + window + psi end-relaxation with psi + |l1-l2| >= window',
 'C06-matrix-swapped-pair': 'C serial distance matrix on a 2-D array container + asymmetric psi 4-tuple',
 'C07-shared-settings-maxdist': 'OpenMP + use_pruning + >= 2 threads overlapping on pairs with different Euclidean bounds (data race on the shared settings)',
 'C07b-shared-row-offset-ptrs': 'OpenMP + triu=False block + pointer container (unequal lengths) + >= 2 threads interleaving (shared loop variable)',
 'C08-ed-ndim-idx-last': 'ndim >= 2 + unequal lengths in the Euclidean bound (read past the shorter series)',
 'C08b-dba-matrix-wps-size-swapped': 'dtw_dba_matrix with a window and an average longer than the series (heap overflow, silent from Python)',
 'C09-ed-ndim-eu-wrong-series': 'C engine + ndim >= 2 + euclidean inner distance + first series shorter',
 'C10-psi2b-zero-cells-window': 'C engine + second series longer + narrow window with psi_2b >= window',
 'C11-ndim-eu-maxstep-before-sqrt': 'C ndim kernel + euclidean inner distance + max_step',
 'C12-dba-matrix-row-stride': 'C DBA on a matrix container with an initial average whose length differs from the series length and a selected row > 0',
 'C12b-dba-keep-int-repr-false': 'C DBA with penalty > 0',
 'C13-shared-remaining-mask': 'two k-best iterators over the same alignment object interleaved',
 'C13b-psi-begin-len-minus-2': 'matching value at the last end position when the best alignment is the single last sample (query length 1)',
 'C14-shared-maxdist-threshold': 'one SubsequenceSearch object: a k-best call followed by a call with larger k/None, use_lb, series 0 with LB above the stale threshold',
 'C15-persisted-maxdist-option': 'one model object: fit with finite max_dist, raise max_dist (or wrap in HierarchicalTree), fit again with the real distance function',
 'C16-skip-final-assignment': 'loop ends by max_it/threshold right after an update in which the last cluster mean did not move but another did (random-init dependent)',
 'C16b-result-keys-from-clusters': 'a final assignment that leaves a cluster empty (duplicates / few distinct series / unlucky initialisation)',
 'C17-traceback-arrows-gap-score': 'best_alignment with a traceback order that tries a gap move before the diagonal',
 'C18-affinity-bestpath-regionC-up': 'compact C LocalConcurrences + small window (region C) + a best path moving vertically in the middle rows',
 'C18b-affinity-clip-inside-tau-branch': 'C affinity kernels + penalty larger than the score accumulated at the start of the series',
 'C19-squash-keepsign-base': 'squash logistic + base given + keep_sign=True',
 'C20-search-maxdist-not-reset': 'one SubsequenceSearch object: finite-k query followed by a k=None query',
 'C06b-python-matrix-maxlengthdiff-skips-idx': 'Python serial distance matrix + max_length_diff + unequal lengths with a skipped pair followed by an admitted one',
 'C09b-lbkeogh-euclidean-envelope-l2-longer': "C lb_keogh + inner_dist='euclidean' + len(s2) > len(s1) + small window",
 'C10b-python-band-start-dropped': 'Python distance + window large but binding (|len diff| + 2*window >= len(s2))',
 'C11b-ed-ndim-last-vector-stride': 'C n-dim Euclidean bound + d >= 2 + len(s1) < len(s2) (only_ub / use_pruning)',
 'C14b-heap-full-strict-threshold': 'max_dist exactly equal to a candidate distance + that candidate arriving when the heap is "full"',
 'C15b-tree-mergehook-return-forwarded': 'HierarchicalTree wrapped around a model whose merge hook returns the prototype pair (weight hook) and keeps from_idx at least once',
 'C17b-border-gap-needs-both-nonempty': 'exactly one empty sequence + substitution function with gap cost != 1',
 'C19b-squash-x0-honoured-gauss-exp': 'squash gaussian/exponential + explicit non-zero x0',
 'C01c-buffer-reset-band-one-short': 'Python distance + max_step rejecting the pair at the right edge of the band in some row (stale cell of the rolling buffer)',
 'C03c-row-above-maxdist-early-inf-psi1e': 'C distance + explicit max_dist + psi end-relaxation on series 1 + a trailing row entirely above the bound',
 'C04c-regionC-first-column-not-reset': 'C warping paths + window narrow enough for region C + psi_1b > window + max(0, l1 - l2)',
 'C05c-python-path-penalty-squared-eu': "Python warping_path (also dtw_ndim.warping_path, warp) + inner_dist='euclidean' + penalty not in {0, 1}",
 'C08c-slice-single-pass-fill-overflow': 'compact matrix + window > 0 + a partial slice whose last row lies entirely beside the band (heap overflow, values unchanged)',
 'C12c-single-series-mask-shortcut': 'Python dba with a mask selecting exactly one series of the same length as the average and a non-diagonal optimal path',
 'C13c-maxlength-on-path-length': 'kbest_matches with maxlength set and a match whose segment is within maxlength but whose path is longer (valid matches silently dropped)',
 'C16c-empty-cluster-filled-after-final': 'a final assignment that leaves a mean nobody is nearest to (duplicates, k close to the number of distinct series, unlucky initialisation)',
 'C18c-reset-mask-windowdiff-merged': 'LocalConcurrences on the full matrix + window + series 2 longer than series 1 + the best cells in the part of the band that exists only because of the length difference',
 'C20c-dba-loop-asarray-in-place': 'dba_loop(use_c=True, thr=None, keep_averages=False) with a float64 ndarray / array.array as initial average or first series',
 'C02c-window-written-back-to-shared-settings': 'C distance matrix with window None/0 on series of different lengths: an early short pair narrows the band of later pairs (state left in the shared settings struct)',
 'C06c-matrix-length-negative-rows': 'triangular block whose row range runs past its column end (re > ce)',
 'C07c-static-band-buffer': 'OpenMP matrix + 1-D series + window set (static scratch rows shared by the threads) + >= 2 threads interleaving',
 'C09c-python-lbkeogh-imin-diff-max': 'Python lb_keogh + len(s1) > len(s2) + explicit window >= 2',
 'C10c-c-distance-swaps-series-not-psi': 'C distance + len(s1) < len(s2) + psi 4-tuple whose series-1 and series-2 entries differ',
 'C11c-ndim-wrapper-direct-without-window': "dtw_ndim.warping_paths(use_c=True) with a window for which the compact width equals the full width (2*window == l1 for l1 <= l2): wrong matrix, correct distance",
 'C14c-lb-plus-linear-penalty': 'use_lb + penalty > 0 + a candidate whose length differs from the query + k-th best threshold between its distance and the inflated bound',
 'C15c-stop-strictly-below-maxdist': 'finite max_dist exactly equal to the distance of the closest remaining prototype pair',
 'C17c-dp-shortcut-rewarded-pair': 'substitution dictionary in which a mismatching pair is still rewarded (a gap can beat the forced diagonal)',
 'C19c-gaussian-explicit-r-overridden-by-quantile': "distance_to_similarity(method='gaussian') with explicit r AND cover_quantile",
 'C20b-verify-contiguous-fortran': 'n-dim series as Fortran-ordered/transposed 2-D array + C engine pairwise entry point',
}
STRENGTHENED = {
 'C06-matrix-swapped-pair': 'missed by the first C06 (all settings symmetric); caught after adding one-sided psi settings',
 'C07-shared-settings-maxdist': 'missed by the first C07 driver (no pruning setting); caught after adding use_pruning / max_dist+psi settings',
 'C14-shared-maxdist-threshold': 'missed by the first C14 histories (3 fixed candidate lists); caught after adding depth-2 histories on every ordered candidate list',
 'C06b-python-matrix-maxlengthdiff-skips-idx': 'needed the max_length_diff setting added to C06 while this seed was being run',
 'C14b-heap-full-strict-threshold': 'missed (thresholds only in gaps); caught after adding thresholds equal to exactly representable distances',
 'C15b-tree-mergehook-return-forwarded': 'missed (tree variant only without weight hook); caught after adding HierarchicalTree around a weighted model',
 'C19b-squash-x0-honoured-gauss-exp': 'missed (x0 only generated for logistic); caught after generating x0 for every method',
 'C20-search-maxdist-not-reset': 'caught by C14 from the start; C20 itself missed it until model-object histories were added to C20',
 'C20b-verify-contiguous-fortran': 'missed (the Fortran/transposed forms had guard rows, hence were not contiguous); caught after adding an exactly F-contiguous form',
 'C13c-maxlength-on-path-length': 'missed (C13 judged only what was yielded); caught after adding the completeness rule: an end that no stated rule can exclude must be yielded',
 'C18c-reset-mask-windowdiff-merged': 'missed (validity monitor only); caught after adding "the first match after a (re)start is traced from the maximum of the matrix" and two pairs whose best cells lie in the widened part of the band',
 'C20c-dba-loop-asarray-in-place': 'caught by C12 from the start; C20 itself missed it until the option variants of dba_loop (thr=None, explicit c, keep_averages, mask) were added to its catalogue - which also exposed F51. patch.diff was rebased onto F51 (original in patch.orig.diff)',
 'C02c-window-written-back-to-shared-settings': 'caught by C06 from the start; C02 itself missed it (its matrix route held only the pair) until the pair became the LAST pair of a 4-series collection',
 'C11c-ndim-wrapper-direct-without-window': 'caught by C04 from the start; C11 itself compared only value and shape of the n-dim cost matrix until the cell-wise comparison was added',
 'C15-persisted-maxdist-option': 'C15 was extended with real-distance fit histories after reading this seed and before its first run',
 'C19-squash-keepsign-base': 'C19 was extended with base=10 after reading this seed and before its first run',
 'C03b-pruning-tightest-bound-unsquared': 'C03 was extended with use_pruning+max_dist after reading this seed and before its first run',
 'C04b-loc-columns-regionA-ldiff': 'the long-thin-band universes (shapes up to 14) were added after reading this seed and before its first run',
}
rows = []
for d in sorted(glob.glob(os.path.join(VERIF, 'seeded', '*'))):
    name = os.path.basename(d)
    rj = os.path.join(d, 'result.json')
    if not os.path.exists(rj):
        continue
    r = json.load(open(rj))
    prop = re.match(r'(C\d+)', name).group(1)
    meta = {'breaks_property': prop, 'needs_to_manifest': NEEDS.get(name, ''),
            'origin': 'independent sub-agent given only the property text and its own scratch worktree',
            'confirmed': {'patch_applies': r.get('applies'), 'builds': r.get('builds'), 'pinned_suite_still_passes': r.get('tests_pass'),
                          'demo_exit_with_change': r.get('demo_with_patch'), 'demo_exit_without_change': r.get('demo_without_patch')},
            'what_was_run': 'tools/seedtest.py: scratch worktree of /repo HEAD, git apply patch.diff, build_ext --inplace, tools/baseline.py (pinned suite), demo.py with and without the patch, then the listed checks with VERIF_REPO=<worktree>',
            'checks_run': {p: v['rc'] for p, v in (r.get('checks') or {}).items()},
            'caught_by': r.get('caught_by'), 'strengthening': STRENGTHENED.get(name, 'none needed')}
    json.dump(meta, open(os.path.join(d, 'meta.json'), 'w'), indent=1)
    rows.append('| `%s` | %s | %s | %s | %s | %s |' % (name, prop, NEEDS.get(name, '').replace('|', '\\|'), ', '.join(r.get('caught_by') or []) or '**none**',
                                                 ', '.join(p for p, v in (r.get('checks') or {}).items() if v['rc'] == 0) or '-', STRENGTHENED.get(name, '')))
print('| seeded change | breaks | needs to manifest | caught by | also run, silent | strengthening |')
print('|---|---|---|---|---|---|')
print('\n'.join(rows))
