"""Table behind MANIFEST.json.  Keep in sync with what ./check actually implements."""

E1 = 'bounded-exhaustive input x configuration state exploration of the real code vs a definitional reference model'
E2 = 'breadth-first exploration of operation histories on live objects, fresh-object differential oracle'

HOOK_COMMITS = []

ENGINES = [
    {'name': 'E1-input-config-explorer', 'path': 'vf/core.py, vf/univ.py, vf/oracles.py',
     'serves_properties': ['C01', 'C02', 'C03', 'C04', 'C05', 'C06', 'C09', 'C10', 'C11', 'C12', 'C17', 'C18', 'C19'],
     'kind_free_text': 'explicit enumeration of every input shape/value/configuration inside stated bounds; real code run on each; compared with a reference model on every case'},
    {'name': 'E4-sanitizer-native-enumerator', 'path': 'native/c08drv.c, vf/props/c08.py', 'serves_properties': ['C08'],
     'kind_free_text': 'native driver enumerating its configuration universe under ASan/UBSan with exact-size buffers; abort-and-restart attribution through a breadcrumb file'},
    {'name': 'E3-vomp-schedule-explorer', 'path': 'native/vomp.c, native/c07drv.c, vf/props/c07.py', 'serves_properties': ['C07'],
     'kind_free_text': 'own GOMP_*/__tsan_* runtime with ucontext coroutines; CHESS-style iterative preemption bounding with replayable choice sequences; virtual multiprocessing pool with exhaustive completion orders'},
    {'name': 'E2-history-explorer', 'path': 'vf/props/c13.py, c14.py, c15.py, c18.py, c20.py (check_histories)', 'serves_properties': ['C13', 'C14', 'C15', 'C18', 'C20'],
     'kind_free_text': 'breadth-first enumeration of operation sequences; each prefix is replayed on a fresh live object; differential oracle = fresh-object / reference answer at every step'},
    {'name': 'E5-choice-tape-explorer', 'path': 'vf/props/c16.py (Tape, Patched, explore_fit)', 'serves_properties': ['C16'],
     'kind_free_text': 'every random draw is a choice point with all outcomes of non-zero probability as alternatives; DFS with prefix replay on fresh objects'},
]

PENDING = 'check not built yet in this round (planned, see DESIGN.md section 4); not claimed until it exists and is silent on the unchanged tree'

CHECKS = {
    'C01': (E1, 'E1-input-config-explorer',
            'All series pairs over a 3-letter dyadic alphabet up to length 3 (4) crossed with every window/penalty/psi/max_step/max_length_diff/inner-distance setting, '
            'plus every shape up to 5x5 (7x7) with every window and psi 4-tuple, are run through dtw.distance with and without NumPy and compared with the minimum over explicitly '
            'enumerated admissible warping paths. Exhaustive inside the bound; says nothing about longer series or non-dyadic rounding.',
            'Trusted: vf/oracles.py (cell recursion tied to explicit path enumeration at run start), CPython float arithmetic. Small-scope hypothesis for lengths above the bound.',
            'DESIGN.md section 4 C01'),
}

CHECKS['C02'] = (E1 + ' (differential between engines)', 'E1-input-config-explorer',
    'The C01 universe plus None/0 encodings, max_dist thresholds, use_pruning, only_ub, max_length_diff and ndim 2..3 is pushed through the Python engine and four C routes '
    '(distance_fast, distance(use_c=True), distance_matrix(use_c=True), the exported C function via ctypes); every result must equal the Python result within 4 ulp or both be inf.',
    'Trusted: the Python engine as reference (C01/C11 tie it to the definition). Settings whose meaning differs by documentation (window=0, max_length_diff=0) and pruning under an invalid bound are outside the universe.',
    'DESIGN.md section 4 C02')
CHECKS['C03'] = (E1 + ' with exhaustive per-case threshold sets (two-run metamorphic oracle)', 'E1-input-config-explorer',
    'For every case of the universe every threshold at which the pruning logic can change branch (one per gap between consecutive cell optima / distance / Euclidean bound) is tried as max_dist on 9 routes '
    '(Python/C x distance, warping_paths, keep_int_repr, compact, distance_matrix); use_pruning is tried in every configuration in which C03 calls the bound valid, also together with max_dist; in the matrix routes the pair is the last pair of a 4-series collection; a multivariate sub-universe runs the same through dtw_ndim. Result must be the unbounded result or inf as the property states.',
    'Trusted: the same routine without max_dist as oracle (C01/C02/C04 cover it); thresholds within 1e-9 relative of the true value are not judged.',
    'DESIGN.md section 4 C03')

CHECKS['C09'] = (E1, 'E1-input-config-explorer',
    'All series pairs over a positive and a mixed-sign dyadic alphabet (lengths 1..4, ndim 1..3) x both inner distances x every window: every public and exported way to obtain the Euclidean bound '
    '(ed.distance, distance_fast, ub_euclidean, ed_cc.distance_ndim, dtw_cc.ub_euclidean(_ndim), distance(only_ub) in 4 routes and combined with use_pruning / window+penalty, C functions) equals the defining formula and is >= the reference DTW; '
    'LB_Keogh (Python, Cython, C) is equal in both engines and <= reference DTW for penalties {0,.5,2}.',
    'Trusted: reference DTW (C01 ties it to the implementation). LB is not required to equal the textbook envelope, only to be a lower bound and engine-independent.',
    'DESIGN.md section 4 C09')
CHECKS['C10'] = (E1 + ' (oracle-free metamorphic relations over a complete settings grid)', 'E1-input-config-explorer',
    'For every unordered series pair the complete table of distances over window x penalty x max_step x inner x psi grid is computed in both argument orders and both engines (ndim 1 and 2); identity, non-negativity, '
    'symmetry under swapped psi, monotonicity in window/psi component/penalty/max_step and window=1 == Euclidean are checked on every comparable pair of grid points; square distance matrices are checked for mirroring validity.',
    'Trusted: nothing but float comparison; the relations are exactly those named in C10.',
    'DESIGN.md section 4 C10')
CHECKS['C11'] = (E1, 'E1-input-config-explorer',
    'All pairs of series of d-vectors (d 1..3, lengths 1..3) over a 2-letter alphabet x settings cross: dtw_ndim.distance/_fast, warping_paths(_fast) value, shape and every cell, warping_path (validity and cost), max_length_diff {1,2} on unequal lengths, '
    'use_pruning, and distance_matrix over 3-collections in list-of-2D and 3-D containers, both engines, against the path-definition reference with vector point distance; d=1 also against the univariate routine.',
    'Trusted: vf/oracles.py (vector point distances); the cell judge is shared with C04.',
    'DESIGN.md section 4 C11')

CHECKS['C04'] = (E1, 'E1-input-config-explorer',
    'Accumulated-cost matrices from four producers (Python warping_paths, C full matrix, C compact array + dtw_expand_wps, C compact array + dtw_expand_wps_slice for EVERY slice of small shapes) are compared cell by cell '
    'with a reference table of per-cell optima, under exactly the freedoms C04 names (cells above max_dist, -1 marks in the relaxed suffix, infinite outside the band); the returned distance is compared with the distance-only routine; ndim 1-2; max_dist takes fixed values and, per case, a threshold in the gap just above that case\'s distance and one in the middle of its cell values; long thin bands up to 12 (18).',
    'Trusted: vf/oracles.py cell table. Row 0 / column 0 are compared between engines only. A native crash of a worker is reported as a violation with the case from its breadcrumb.',
    'DESIGN.md section 4 C04')
CHECKS['C05'] = (E1, 'E1-input-config-explorer',
    'Paths from 9 routes (best_path on Python/C matrices, best_path2, internal-representation best_path with penalty, warping_path, warping_path_fast/_ndim, best_path_compact, warp, and dtw_best_path_customstart from every finite in-band cell) '
    'are checked for admissibility (steps, band, max_step, relaxed corners) and for accumulated cost == reference distance == reported distance, over all pairs up to length 3 x settings cross and all shapes up to 5x5 (6x6).',
    'Trusted: vf/oracles.py. One open finding (K01: best_path/best_path2/best_path_compact called directly on -1 marked matrices under psi end-relaxation).',
    'DESIGN.md section 4 C05')

CHECKS['C06'] = (E1, 'E1-input-config-explorer',
    'For collections of n = 1..6 (7) series with pairwise distinct distances (5 families incl. unequal lengths and ndim 2-3) under 5 DTW settings (default, window+penalty, two one-sided psi tuples that make d(a,b) != d(b,a), max_length_diff=1) EVERY block ((rb,re),(cb,ce)[,False]) plus None is enumerated; the compact result of the Python engine, '
    'the Cython route (5 container forms) and the six exported dtw_distances_* routines (exact-size output buffers) must list exactly the reference distances of the selected pairs in row-major order and have the advertised length '
    '(3 length helpers); square and only_triu forms are compared entry by entry; distance_array_index is checked for all a != b.',
    'Trusted: vf/oracles.py distances; the layout reference is a two-line list comprehension. Diagonal of the only_triu square form is not judged.',
    'DESIGN.md section 4 C06')

E4 = 'bounded-exhaustive native enumeration of configurations under ASan/UBSan with exact-size buffers (explicit-state, no sampling)'
CHECKS['C08'] = (E4, 'E4-sanitizer-native-enumerator',
    'A C driver linked with the repository C sources under ASan+UBSan (-fno-sanitize-recover) enumerates every (l1,l2) <= 6x6 (8x8) x window 0..max+1 x psi {0,1,len}^4 x option set x inner distance x ndim 1..3 x value pattern for '
    'dtw_distance*, dtw_warping_paths* (+affinity), expansion, EVERY slice, best paths (incl. every custom start, isclose, prob), warping_path, wps location/max/negativize helpers, bounds, all dtw_distances_* (serial and OpenMP) for every block of n <= 4, '
    'and dtw_dba_* for every mask; every caller buffer is malloc\'ed at exactly the documented size; built once as shipped (NDEBUG) and once with asserts. A second pass drives 20 Cython wrapper calls per configuration on an ASan-built extension.',
    'Trusted: ASan/UBSan red zones as monitor. Accesses landing in another live allocation beyond the red zone are invisible; thread schedules are those of the real libgomp (C07 explores schedules).',
    'DESIGN.md section 4 C08')

E3 = 'stateless model checking of the real C code under a controlled cooperative scheduler (iterative preemption bounding), plus exhaustive completion orders of a virtual worker pool'
CHECKS['C07'] = (E3, 'E3-vomp-schedule-explorer',
    'The six dtw_distances_*_parallel routines are compiled with gcc -fopenmp (outlined exactly as shipped) and -fsanitize=thread as an instrumentation pass, and linked against vomp, a virtual OpenMP runtime whose ucontext threads are '
    'scheduled by the explorer: every interleaving of scheduling points up to 2 (3) preemptions x T = 1..3 (4) x 5 dispatch kinds (static/dynamic/guided, chosen by the explorer) x blocks x 5 settings (default, window+psi+penalty, use_pruning, max_dist+psi, max_length_diff) must give output bitwise equal to the serial routine; '
    'conflicting accesses found by a shadow map become additional scheduling points (two-phase). multiprocessing: a virtual Pool (pickled tasks, real chunking, all completion orders, P = 1..3; plus every order of a 4-series collection, so that each kind of pair is the first and a later member of a chunk whose options object is shared) replaces multiprocessing.Pool; validated against the real Pool.',
    'Trusted: vomp (sequentially consistent interleavings; libgomp itself and weak memory are out of scope), gcc outlining. Bounds: T <= 4, preemption bound <= 3, n <= 5.',
    'DESIGN.md section 3 E3a/E3b, section 4 C07')

CHECKS['C17'] = (E1, 'E1-input-config-explorer',
    'All pairs of sequences over {A,B,C} with lengths 0..4 (5), empty sequences included, x 8 scorings (default, custom gap costs, dictionaries with asymmetric, one-sided and zero-valued entries, max/min orientation) x all 6 traceback orders: '
    'the returned value must equal the maximum score over ALL explicitly enumerated global alignments, and every reconstructed alignment must be equal-length, gap/gap-free, de-gap to the inputs and score the returned value.',
    'Trusted: the 15-line recursive enumeration of alignments and an independent reading of the dictionary scoring (the library\'s own substitution function is never used by the reference).',
    'DESIGN.md section 4 C17')
CHECKS['C19'] = (E1, 'E1-input-config-explorer',
    'All arrays over a 4-letter non-negative alphabet of shapes (1,),(2,),(3,),(2,2) x every method of distance_to_similarity and squash x explicit/derived r, a, x0, base x cover_quantile forms x keep_sign x return_params: '
    'pointwise monotonicity on all index pairs, zero distance -> maximal similarity, range [0,1] under the default scale, equality with the documented closed form for explicit parameters (an explicit x0 / r is the one of the formula and must be the one reported), the documented quantile contract (the requested value is reached at the quantile) for derived parameters, no NaN, and re-application with the reported parameters.',
    'Trusted: math.exp transcription of the docstring formulas. Explicitly requested quantile targets that are unsatisfiable (derived scale not finite and positive) are counted, not judged.',
    'DESIGN.md section 4 C19')

CHECKS['C13'] = (E1 + '; ' + E2, 'E1-input-config-explorer + E2-history-explorer',
    'Every (query len 1..3, series len 1..5 (6)) pair over a 3-letter alphabet x 3 penalties (and the None encoding of no penalty) x 48 iterator argument sets x both engines (ndim 1-2): matching function == brute force over all start points of the reference DTW / len(query); '
    'best match and every k-best match: path is a valid warping path over its segment whose cost realises the value; iterator: distinct ends, sorted values, length limits, no overlap, and no end position left out that no stated rule can exclude; engines agree. '
    'Histories up to depth 3 (4) over {align, matching_function, best_match, two interleaved iterators, reset} must answer like a fresh object.',
    'Trusted: vf/oracles.py DTW. After the first match whose equally optimal path differs between engines later masking may differ (not judged).',
    'DESIGN.md section 4 C13')
CHECKS['C14'] = (E1 + '; ' + E2, 'E1-input-config-explorer + E2-history-explorer',
    'Every candidate list of 1..4 (5) series drawn with repetition from tie-rich pools (so in every order, with duplicates) x window x penalty x psi x every class of max_dist/max_value threshold x use_lb x engine x every k in 1..N+1 and None: '
    'the answer must be exactly the sorted exhaustive reference distances within the threshold (indices up to ties, right count). Every history up to depth 3 (4) over {kbest_matches(1|2|3|None), best_match, align(2), kbest_matches_fast(2), reset} is judged the same way at every step.',
    'Trusted: vf/oracles.py DTW; thresholds lie in gaps between distinct distances or exactly on a distance that is a small dyadic rational (decided without rounding). Depth-2 histories additionally run on every ordered candidate list of length 3 (4).',
    'DESIGN.md section 4 C14')

E5 = 'exhaustive exploration of all random outcomes through an explorer-owned choice tape (depth-first over the choice tree), virtual worker pool'
CHECKS['C15'] = (E2 + ' (merge state machine monitored on every transition)', 'E2-history-explorer',
    'The distance function is a stub serving EVERY upper-triangular distance table for n = 2..4 over {1,2,3,inf} and n = 5 over {1,2,inf} (ties, duplicates, infinite entries) x 5 max_dist values (0 included) x {none, weight, order, both} hooks; '
    'each merge transition is checked through the public merge_hook (two live prototypes, distance = current minimum over live pairs, non-decreasing, <= max_dist) and the final state is checked to be a partition keyed by contained prototypes with no two prototypes within max_dist; '
    'HierarchicalTree well-formedness (n-1 rows, every node a child once; also wrapped around a model whose weight hook chooses the prototype), repeated fits, fit histories with a changed max_dist on the real distance function, LinkageTree == scipy linkage, and real dtw.distance_matrix (Python/C) on all small collections.',
    'Trusted: the monitor invariants are a transcription of C15; tie-breaking order is not prescribed and not compared.',
    'DESIGN.md section 4 C15')
CHECKS['C16'] = (E5, 'E5-choice-tape-explorer',
    'numpy.random.randint/choice and random.randint are replaced inside the harness by functions reading a choice tape; for every (data set, configuration) the complete tree of random outcomes is enumerated depth first '
    '(for choice without replacement: every ordered subset of the support), i.e. a superset of all seeds. Every leaf (a complete KMeans.fit) is judged: keys 0..k-1, index sets partition all series, k means, every series with a nearest mean under the reference DTW, '
    'performed_it <= max_it+1, monitor protocol; exceptions are violations. Data: multisets of 3..5 short series (duplicates, outlier patterns and a sample over a 3-letter alphabet included), k in {2,3}, 4 initialisations, 11 option sets incl. drop_stddev 0.5/1/3, C engine and the virtual pool; the same model object is fitted a second time after the first leaf of every tree.',
    'Trusted: vf/oracles.py DTW (1e-9 slack, means are not dyadic); the choice functions mirror numpy semantics incl. its ValueError for unsatisfiable draws. Leaf cap 20000 per tree (reported if hit).',
    'DESIGN.md section 3 E5, section 4 C16')

CHECKS['C12'] = (E1, 'E1-input-config-explorer',
    'Every collection of 1..3 short series x initial average x non-empty mask x window x penalty (ndim 1-2, list and matrix containers) through dba (Python), dba(use_c) and dtw_cc.dba/_ndim: ALL optimal warping paths of (average, series) are enumerated explicitly and the result must be the '
    'per-position mean under some combination of them; value range; sum of squared reference DTW distances does not increase; engines agree when the optimal paths are unique; single-symbol changes of unselected series leave the result unchanged; dba_loop: <= max_it update steps, caller\'s c untouched, identical series are a fixed point, each step starts from the previous output, the result is the last output and kept averages are the step outputs, row- and column-major initial averages, each C step equals the same step on a row-major copy of its input; collections of 9, 10 (17) series with EVERY non-empty mask (the mask is a bit array in C).',
    'Trusted: vf/oracles.py explicit path enumeration (combination cap 4096, reported if hit). The probabilistic DBA is outside C12.',
    'DESIGN.md section 4 C12')
CHECKS['C18'] = (E1 + '; ' + E2, 'E1-input-config-explorer + E2-history-explorer',
    'All series pairs up to length 3 (4) x gamma x tau x delta x delta_factor x penalty{None,0,.1} x window x only_triu: the Python matrix, the C full matrix and the C compact array expanded/sliced (every slice on a quarter of the pairs) must equal a literal transcription of the recurrence cell by cell (-inf where excluded). '
    'LocalConcurrences histories up to depth 3 (4) over two interleaved iterators (k, minlen, buffer, restart), kbest_matches_store(keep T/F) and reset, for Python, C full and C compact: every match is a contiguous monotone path through cells that are positive in the reference matrix, ends in its reported maximum, and shares no cell with an earlier match of the same un-restarted history; after every restart the first match / the stored matches must equal what a fresh object returns.',
    'Trusted: math.exp transcription (1e-12). psi-relaxation and the returned scalar of the affinity routines are not described by C18.',
    'DESIGN.md section 4 C18')

CHECKS['C20'] = (E1 + '; ' + E2, 'E1-input-config-explorer + E2-history-explorer',
    'A catalogue of 25 pair-level and 14 collection-level routines (both engines) is called on every combination of container representations of its series arguments (list, tuple, array.array, ndarray contiguous/strided/reversed/row/Fortran-ordered slice/transposed view/exactly F-contiguous/read-only; '
    'list and tuple of arrays, strided rows, SeriesContainer, 2-D/3-D arrays in C, strided and Fortran order). Every array lives inside a larger poisoned buffer and each call is made with two poison values: inputs and guard zones must be byte-identical afterwards, '
    'the result must not depend on the poison, must repeat, and must equal the result on the canonical container. Histories: every sequence up to depth 3 of 13 routines sharing the same series objects, and every sequence up to depth 3 of the operations of one shared model object (SubsequenceSearch, SubsequenceAlignment, LocalConcurrences, Hierarchical/HierarchicalTree, KMeans with a fixed seed) or of consumers of one shared settings dictionary, must reproduce what a fresh object answers. The NumPy-free routines are re-run in a NumPy-less interpreter.',
    'Trusted: byte images of the buffers. Lists into *_fast entry points and read-only arrays into the C engine are outside C20\'s container list (documented requirement) and not generated.',
    'DESIGN.md section 4 C20')

ALL = ['C%02d' % i for i in range(1, 21)]
NOT_APPLICABLE = {p: PENDING for p in ALL if p not in CHECKS}
