"""Table behind MANIFEST.json.  Keep in sync with what ./check actually implements."""

E1 = 'bounded-exhaustive input x configuration state exploration of the real code vs a definitional reference model'
E2 = 'breadth-first exploration of operation histories on live objects, fresh-object differential oracle'

HOOK_COMMITS = []

ENGINES = [
    {'name': 'E1-input-config-explorer', 'path': 'vf/core.py, vf/univ.py, vf/oracles.py',
     'serves_properties': ['C01'],
     'kind_free_text': 'explicit enumeration of every input shape/value/configuration inside stated bounds; real code run on each; compared with a reference model on every case'},
]

PENDING = 'check not built yet in this round (planned, see DESIGN.md section 4); not claimed until it exists and is silent on the unchanged tree'

CHECKS = {
    'C01': (E1, 'E1-input-config-explorer',
            'All series pairs over a 3-letter dyadic alphabet up to length 3 (4) crossed with every window/penalty/psi/max_step/max_length_diff/inner-distance setting, '
            'plus every shape up to 5x5 (7x7) with every window and psi 4-tuple, are run through dtw.distance with and without NumPy and compared with the minimum over explicitly '
            'enumerated admissible warping paths. Exhaustive inside the bound; says nothing about longer series or non-dyadic rounding.',
            'Trusted: vf/oracles.py (cell recursion tied to explicit path enumeration at run start), CPython float arithmetic. Small-scope hypothesis for lengths above the bound.',
            'DESIGN.md section 4 C01'),
}

ALL = ['C%02d' % i for i in range(1, 21)]
NOT_APPLICABLE = {p: PENDING for p in ALL if p not in CHECKS}
