#!/usr/bin/env python3
"""Collect the last thorough result line per property from run logs (later logs override) into evidence_thorough/summary.txt
and copy the corresponding evidence files next to it.  usage: thorough_summary.py <run dir> [<run dir> ...]"""
import os, re, sys, shutil
VERIF = os.path.dirname(os.path.dirname(os.path.abspath(__file__)))
out = {}
for rd in sys.argv[1:]:
    log = os.path.join(rd, 'log')
    for ln in open(log, errors='replace'):
        m = re.match(r'rc=(\d+) (C\d\d) tier=thorough (.*)', ln.strip())
        if m:
            out[m.group(2)] = (m.group(1), m.group(3), rd)
            ev = os.path.join(rd, 'verif', 'evidence', m.group(2) + '.json')
            if os.path.exists(ev):
                try:
                    import json
                    if json.load(open(ev)).get('tier') == 'thorough':
                        shutil.copy2(ev, os.path.join(VERIF, 'evidence_thorough', m.group(2) + '.json'))
                except ValueError:
                    pass
with open(os.path.join(VERIF, 'evidence_thorough', 'summary.txt'), 'w') as f:
    for p in sorted(out):
        f.write('%s rc=%s %s\n' % (p, out[p][0], out[p][1]))
print(len(out), 'properties')
