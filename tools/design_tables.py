#!/usr/bin/env python3
"""Regenerate the generated tables of DESIGN.md (between <!-- BEGIN x --> / <!-- END x --> markers)."""
import os, re, subprocess, json, glob
VERIF = os.path.dirname(os.path.dirname(os.path.abspath(__file__)))
p = os.path.join(VERIF, 'DESIGN.md')
s = open(p).read()


def put(name, text):
    global s
    a, b = '<!-- BEGIN %s -->' % name, '<!-- END %s -->' % name
    assert a in s and b in s, name
    s = s[:s.index(a) + len(a)] + '\n' + text.rstrip() + '\n' + s[s.index(b):]


put('seeded', subprocess.run(['/venv/bin/python', os.path.join(VERIF, 'tools', 'seedmeta.py')], stdout=subprocess.PIPE, text=True, check=True).stdout)
rows = ['| prop | tier | states | transitions | validated | non-trivial | wall (quick, 16 cores) |', '|---|---|---|---|---|---|---|']
for f in sorted(glob.glob(os.path.join(VERIF, 'evidence', 'C*.json'))):
    e = json.load(open(f))
    c = e.get('coverage', {})
    rows.append('| %s | %s | %s | %s | %s | %s | %s s |' % (e.get('property_id'), e.get('tier'), c.get('states'), c.get('transitions'), c.get('traces_validated_against_impl'),
                                                         c.get('distinct_nontrivial'), e.get('wall_s')))
put('evidence', '\n'.join(rows))
tp = os.path.join(VERIF, 'evidence_thorough', 'summary.txt')
if os.path.exists(tp) and '<!-- BEGIN thorough -->' in s:
    rows = ['| prop | result | states | transitions | validated | non-trivial | wall (thorough, 16 cores, machine shared with other runs) |', '|---|---|---|---|---|---|---|']
    for ln in open(tp):
        d = dict(kv.split('=', 1) for kv in ln.split()[1:] if '=' in kv)
        rows.append('| %s | %s | %s | %s | %s | %s | %s |' % (ln.split()[0], 'silent' if d.get('rc') == '0' and d.get('unlisted_classes') == '0' else 'rc=' + d.get('rc', '?'),
                                                          d.get('states'), d.get('transitions'), d.get('validated'), d.get('nontrivial'), d.get('wall')))
    put('thorough', '\n'.join(rows))
kf = json.load(open(os.path.join(VERIF, 'known_findings.json')))['findings']
rows = ['| id | property | commit | what failed |', '|---|---|---|---|']
for f in kf:
    if f.get('status') == 'fixed':
        rows.append('| %s | %s | `%s` | %s |' % (f['id'], f['property'], f['fixed_by'], f['what'].replace('|', '\\|')))
put('fixed', '\n'.join(rows))
open(p, 'w').write(s)
print('DESIGN.md tables regenerated')
