"""MANIFEST.setup_cmd: byte-compile-free sanity check of the framework and the toolchain (offline)."""
import importlib
import os
import shutil
import sys
sys.path.insert(0, os.path.dirname(os.path.dirname(os.path.abspath(__file__))))
for m in ('vf.build', 'vf.core', 'vf.oracles', 'vf.univ'):
    importlib.import_module(m)
for t in ('gcc', 'clang'):
    assert shutil.which(t), t + ' missing'
os.makedirs(os.path.join(os.path.dirname(os.path.dirname(os.path.abspath(__file__))), 'evidence'), exist_ok=True)
print('setup ok')
