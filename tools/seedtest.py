#!/usr/bin/env python3
"""Confirm a seeded change and run the checks against it.

usage: seedtest.py <dir with patch.diff [demo.py]> [--no-tests] [--props C01,C02,...] [--tier quick]

1. scratch worktree of /repo HEAD under /tmp, patch applied (git apply), extensions built in place
2. (unless --no-tests) the repository's pinned suite on the patched tree must still pass its stable list
3. demo.py must exit non-zero on the patched tree and zero on the unpatched tree
4. every check (or --props) is run with VERIF_REPO=<patched tree>; prints which ones report a VIOLATION
The worktree and its build output are removed at the end.  Writes <dir>/result.json.
"""
import json
import os
import shutil
import subprocess
import sys
import time

VERIF = os.path.dirname(os.path.dirname(os.path.abspath(__file__)))


def sh(cmd, cwd=None, env=None, timeout=None):
    r = subprocess.run(cmd, cwd=cwd, env=env, stdout=subprocess.PIPE, stderr=subprocess.STDOUT, text=True, timeout=timeout)
    return r.returncode, r.stdout


def main():
    args = [a for a in sys.argv[1:] if not a.startswith('--')]
    d = os.path.abspath(args[0])
    opts = dict(a[2:].split('=', 1) if '=' in a else (a[2:], True) for a in sys.argv[1:] if a.startswith('--'))
    patch = os.path.join(d, 'patch.diff')
    demo = os.path.join(d, 'demo.py')
    wt = '/tmp/seedwt_%d' % os.getpid()
    res = {'dir': d, 'started': time.strftime('%F %T')}
    sh(['git', '-C', '/repo', 'worktree', 'add', '-q', '--detach', wt, 'HEAD'])
    try:
        rc, out = sh(['git', 'apply', '--whitespace=nowarn', patch], cwd=wt)
        res['applies'] = rc == 0
        if rc != 0:
            print('PATCH DOES NOT APPLY\n' + out)
            return res
        env = dict(os.environ)
        env.pop('PYTHONPATH', None)
        penv = dict(env, PYTHONPATH=os.path.join(wt, 'src'))
        if 'no-tests' not in opts or os.path.exists(demo):
            rc, out = sh(['/venv/bin/python', 'setup.py', 'build_ext', '--inplace', '-j8'], cwd=wt, env=env)
            res['builds'] = rc == 0
            if rc != 0:
                print('BUILD FAILED\n' + out[-2000:])
                return res
        if 'no-tests' not in opts:
            rc, out = sh(['/venv/bin/python', os.path.join(VERIF, 'tools', 'baseline.py'), wt], env=env)
            res['tests_pass'] = rc == 0
            res['tests_tail'] = out.strip().splitlines()[:6]
            print('pinned suite on patched tree:', 'PASS' if rc == 0 else 'FAIL', out.strip().splitlines()[0] if out.strip() else '')
        if os.path.exists(demo):
            rc, out = sh(['/venv/bin/python', demo], cwd=d, env=penv, timeout=900)
            res['demo_with_patch'] = rc
            sh(['git', 'apply', '-R', '--whitespace=nowarn', patch], cwd=wt)
            sh(['/venv/bin/python', 'setup.py', 'build_ext', '--inplace', '-j8'], cwd=wt, env=env)
            rc2, out2 = sh(['/venv/bin/python', demo], cwd=d, env=penv, timeout=900)
            res['demo_without_patch'] = rc2
            sh(['git', 'apply', '--whitespace=nowarn', patch], cwd=wt)
            print('demo: with patch exit %s, without patch exit %s' % (rc, rc2))
        props = opts.get('props')
        if props:
            props = props.split(',')
        else:
            props = [c['property_id'] for c in json.load(open(os.path.join(VERIF, 'MANIFEST.json')))['checks']]
        tier = opts.get('tier', 'quick')
        cenv = dict(os.environ, VERIF_REPO=wt, VERIF_EVIDENCE_DIR=os.path.join('/tmp', 'seed_evidence_%d' % os.getpid()), VERIF_REPLAY_DIR=os.path.join('/tmp', 'seed_evidence_%d' % os.getpid(), 'replays'))
        caught = {}
        for p in props:
            t0 = time.time()
            rc, out = sh([os.path.join(VERIF, 'check'), p, '--tier', tier], env=cenv, timeout=7200)
            lines = [ln for ln in out.splitlines() if ln.startswith(('VIOLATION', 'API-SUMMARY', 'BUILD-ERROR', 'HARNESS-ERROR'))]
            caught[p] = {'rc': rc, 'wall_s': round(time.time() - t0, 1), 'first': [ln[:400] for ln in lines if ln.startswith('API-SUMMARY')][:3]}
            print('%s rc=%d %5.1fs %s' % (p, rc, time.time() - t0, (caught[p]['first'][0][:160] if caught[p]['first'] else '')))
            sys.stdout.flush()
        res['checks'] = caught
        res['caught_by'] = sorted(p for p, v in caught.items() if v['rc'] == 1)
        res['errors'] = sorted(p for p, v in caught.items() if v['rc'] not in (0, 1))
        print('CAUGHT BY:', ' '.join(res['caught_by']) or '(none)', '| errors:', ' '.join(res['errors']) or '-')
        return res
    finally:
        sh(['git', '-C', '/repo', 'worktree', 'remove', '--force', wt])
        shutil.rmtree(wt, ignore_errors=True)
        shutil.rmtree('/tmp/seed_evidence_%d' % os.getpid(), ignore_errors=True)
        rj = os.path.join(d, 'result.json')
        if os.path.exists(rj):
            # keep what earlier runs established (pinned suite, checks not re-run now); a re-run check replaces its entry
            try:
                old = json.load(open(rj))
            except ValueError:
                old = {}
            for k in ('tests_pass', 'tests_detail'):
                if k not in res and k in old:
                    res[k] = old[k]
            hist = dict(old.get('earlier_runs', {}))
            for pp, v in (old.get('checks') or {}).items():
                if pp in (res.get('checks') or {}) and v.get('rc') != res['checks'][pp].get('rc'):
                    hist.setdefault(pp, []).append({'rc': v.get('rc'), 'when': old.get('started')})
            merged = dict(old.get('checks') or {})
            merged.update(res.get('checks') or {})
            res['checks'] = merged
            res['earlier_runs'] = hist
            res['caught_by'] = sorted(pp for pp, v in merged.items() if v['rc'] == 1)
        with open(rj, 'w') as f:
            json.dump(res, f, indent=1)


if __name__ == '__main__':
    main()
