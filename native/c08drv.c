/* C08 driver: enumerates, natively, every configuration of a bounded universe for the exported C
 * routines of dtaidistance and calls each routine with buffers malloc'ed at exactly the documented
 * size.  Built with ASan+UBSan (no recover): the first report aborts the process; the parent reads
 * the breadcrumb (fd 3) to learn which configuration was running and restarts after it.
 *
 *   c08drv <group> <l1> <l2> <maxlen> <start_index> <tier>
 */
#include "dd_dtw.h"
#include "dd_dtw_openmp.h"
#include <stdarg.h>
#include <string.h>
#include <unistd.h>

static long g_idx = 0, g_start = 0, g_calls = 0;
static int g_thorough = 0;

static int cfg(const char *fmt, ...) {
    char buf[512];
    g_idx++;
    if (g_idx <= g_start) return 0;
    int n = snprintf(buf, sizeof buf, "%ld ", g_idx);
    va_list ap; va_start(ap, fmt);
    n += vsnprintf(buf + n, sizeof buf - n - 2, fmt, ap);
    va_end(ap);
    if (n > (int)sizeof buf - 2) n = sizeof buf - 2;
    buf[n++] = '\n'; buf[n++] = 0;
    if (pwrite(3, buf, n, 0) < 0) { /* breadcrumb is best effort */ }
    g_calls++;
    return 1;
}

static seq_t *series(idx_t l, int ndim, int pattern, int which) {
    seq_t *s = (seq_t *)malloc(sizeof(seq_t) * l * ndim);
    for (idx_t i = 0; i < l; i++)
        for (int d = 0; d < ndim; d++) {
            seq_t v;
            switch (pattern) {
                case 0: v = 1.0 + which; break;                          /* constant */
                case 1: v = 0.5 * i + which * 0.25 + d; break;           /* ramp */
                default: v = ((i + which) % 2) ? 2.5 : 0.0; v -= d; break; /* alternating */
            }
            s[i * ndim + d] = v;
        }
    return s;
}

static idx_t psival(int k, idx_t len) { return k == 0 ? 0 : (k == 1 ? (len >= 1 ? 1 : 0) : (k == 2 ? len : (len >= 2 ? 2 : len))); }

/* iterate settings: calls fn for each */
typedef void (*cfgfn)(idx_t l1, idx_t l2, int ndim, int pattern, DTWSettings *s, const char *desc);

static void for_settings(idx_t l1, idx_t l2, int with_prune, cfgfn fn) {
    idx_t maxl = MAX(l1, l2);
    int npsi = g_thorough ? 4 : 3;
    char desc[256];
    for (int ndim = 1; ndim <= 3; ndim++)
    for (int inner = 0; inner <= 1; inner++)
    for (idx_t w = 0; w <= maxl + 1; w++)
    for (int a = 0; a < npsi; a++) for (int b = 0; b < npsi; b++) for (int c = 0; c < npsi; c++) for (int d = 0; d < npsi; d++)
    for (int opt = 0; opt < (with_prune ? 6 : 4); opt++)
    for (int pattern = 0; pattern < 3; pattern++) {
        if (ndim == 3 && (opt > 1 || pattern == 1)) continue;   /* ndim 3: reduced option cross */
        DTWSettings s = dtw_settings_default();
        s.window = w; s.inner_dist = inner;
        s.psi_1b = psival(a, l1); s.psi_1e = psival(b, l1); s.psi_2b = psival(c, l2); s.psi_2e = psival(d, l2);
        switch (opt) {
            case 0: break;
            case 1: s.penalty = 0.5; break;
            case 2: s.max_step = 1.2; break;
            case 3: s.max_dist = 1.6; s.penalty = 0.5; break;
            case 4: s.use_pruning = true; break;
            case 5: s.only_ub = true; break;
        }
        snprintf(desc, sizeof desc, "l1=%zd l2=%zd ndim=%d inner=%d window=%zd psi=(%zd,%zd,%zd,%zd) opt=%d pattern=%d",
                 l1, l2, ndim, inner, w, s.psi_1b, s.psi_1e, s.psi_2b, s.psi_2e, opt, pattern);
        fn(l1, l2, ndim, pattern, &s, desc);
    }
}

/* ---------------------------------------------------------------- distance */
static void do_distance(idx_t l1, idx_t l2, int ndim, int pattern, DTWSettings *s, const char *desc) {
    if (!cfg("dtw_distance %s", desc)) return;
    seq_t *s1 = series(l1, ndim, pattern, 0), *s2 = series(l2, ndim, pattern, 1);
    volatile seq_t d;
    if (ndim == 1) d = dtw_distance(s1, l1, s2, l2, s); else d = dtw_distance_ndim(s1, l1, s2, l2, ndim, s);
    (void)d;
    free(s1); free(s2);
}

/* ---------------------------------------------------------------- warping paths, expansion, best paths */
static void do_wps(idx_t l1, idx_t l2, int ndim, int pattern, DTWSettings *s, const char *desc) {
    if (!cfg("dtw_warping_paths+expand+best_path %s", desc)) return;
    seq_t *s1 = series(l1, ndim, pattern, 0), *s2 = series(l2, ndim, pattern, 1);
    idx_t n = dtw_settings_wps_length(l1, l2, s);
    for (int variant = 0; variant < 3; variant++) {
        bool keep = variant != 0, neg = variant != 2;
        seq_t *wps = (seq_t *)malloc(sizeof(seq_t) * n);
        volatile seq_t d;
        if (ndim == 1) d = dtw_warping_paths(wps, s1, l1, s2, l2, true, keep, neg, s);
        else d = dtw_warping_paths_ndim(wps, s1, l1, s2, l2, true, keep, neg, ndim, s);
        (void)d;
        seq_t *full = (seq_t *)malloc(sizeof(seq_t) * (l1 + 1) * (l2 + 1));
        dtw_expand_wps(wps, full, l1, l2, s);
        free(full);
        idx_t *i1 = (idx_t *)malloc(sizeof(idx_t) * (l1 + l2)), *i2 = (idx_t *)malloc(sizeof(idx_t) * (l1 + l2));
        volatile idx_t ln = dtw_best_path(wps, i1, i2, l1, l2, s);
        ln = dtw_best_path_isclose(wps, i1, i2, l1, l2, 1e-5, 1e-8, s);
        if (variant == 1 && s->psi_1e == 0 && s->psi_2e == 0) ln = dtw_best_path_prob(wps, i1, i2, l1, l2, 1.0, s);
        (void)ln;
        free(i1); free(i2);
        free(wps);
    }
    /* warping path straight from the series */
    idx_t *f = (idx_t *)malloc(sizeof(idx_t) * (l1 + l2)), *t = (idx_t *)malloc(sizeof(idx_t) * (l1 + l2));
    idx_t len = 0;
    volatile seq_t d2;
    if (ndim == 1) d2 = dtw_warping_path(s1, l1, s2, l2, f, t, &len, s); else d2 = dtw_warping_path_ndim(s1, l1, s2, l2, f, t, &len, ndim, s);
    (void)d2;
    free(f); free(t);
    free(s1); free(s2);
}

/* every slice, every custom start, location helpers (1-D, fewer settings) */
static void do_slices(idx_t l1, idx_t l2, int ndim, int pattern, DTWSettings *s, const char *desc) {
    if (ndim != 1 || s->inner_dist != 0 || pattern == 0) return;
    if (s->max_step != 0 || s->max_dist != 0) return;
    if (!cfg("slices+customstart+loc %s", desc)) return;
    seq_t *s1 = series(l1, 1, pattern, 0), *s2 = series(l2, 1, pattern, 1);
    idx_t n = dtw_settings_wps_length(l1, l2, s);
    seq_t *wps = (seq_t *)malloc(sizeof(seq_t) * n);
    dtw_warping_paths(wps, s1, l1, s2, l2, true, true, false, s);
    for (idx_t rb = 0; rb <= l1; rb++) for (idx_t re = rb + 1; re <= l1 + 1; re++)
    for (idx_t cb = 0; cb <= l2; cb++) for (idx_t ce = cb + 1; ce <= l2 + 1; ce++) {
        seq_t *sl = (seq_t *)malloc(sizeof(seq_t) * (re - rb) * (ce - cb));
        dtw_expand_wps_slice(wps, sl, l1, l2, rb, re, cb, ce, s);
        free(sl);
    }
    DTWWps p = dtw_wps_parts(l1, l2, s);
    idx_t *i1 = (idx_t *)malloc(sizeof(idx_t) * (l1 + l2)), *i2 = (idx_t *)malloc(sizeof(idx_t) * (l1 + l2));
    idx_t window = p.window;
    for (idx_t r = 1; r <= l1; r++) {
        idx_t cb = 0, ce = 0;
        volatile idx_t base = dtw_wps_loc_columns(&p, r, &cb, &ce, l1, l2);
        (void)base;
        for (idx_t c = MAX(1, cb); c < ce && c <= l2; c++) {
            /* only in-band cells: (r-1, c-1) */
            idx_t i = r - 1, j = c - 1;
            idx_t js = (i + 1 > (l1 > l2 ? l1 - l2 : 0) + window) ? i - (l1 > l2 ? l1 - l2 : 0) - window + 1 : 0;
            idx_t je = MIN(l2, i + (l2 > l1 ? l2 - l1 : 0) + window);
            if (j < js || j >= je) continue;
            volatile idx_t loc = dtw_wps_loc(&p, r, c, l1, l2);
            if (loc < 0 || loc >= n) { volatile seq_t *bad = wps; bad[loc] = 0; }   /* provoke a report */
            volatile idx_t ln = dtw_best_path_customstart(wps, i1, i2, l1, l2, r, c, s);
            (void)ln;
        }
    }
    idx_t mr = 0, mc = 0;
    volatile idx_t mx = dtw_wps_max(&p, wps, &mr, &mc, l1, l2);
    (void)mx;
    for (idx_t rb = 1; rb <= l1; rb++) for (idx_t re = rb; re <= l1 + 1; re++)
    for (idx_t cb = 1; cb <= l2; cb++) for (idx_t ce = cb; ce <= l2 + 1; ce++) {
        dtw_wps_negativize(&p, wps, l1, l2, rb, re, cb, ce, false);
        dtw_wps_positivize(&p, wps, l1, l2, rb, re, cb, ce, false);
        dtw_wps_negativize(&p, wps, l1, l2, rb, re, cb, ce, true);
        dtw_wps_positivize(&p, wps, l1, l2, rb, re, cb, ce, true);
    }
    free(i1); free(i2); free(wps); free(s1); free(s2);
}

/* affinity kernels */
static void do_affinity(idx_t l1, idx_t l2, int ndim, int pattern, DTWSettings *s, const char *desc) {
    if (ndim == 3 || s->max_step != 0 || s->max_dist != 0 || s->inner_dist != 0) return;
    if (!cfg("dtw_warping_paths_affinity %s", desc)) return;
    seq_t *s1 = series(l1, ndim, pattern, 0), *s2 = series(l2, ndim, pattern, 1);
    idx_t n = dtw_settings_wps_length(l1, l2, s);
    for (int triu = 0; triu <= 1; triu++) {
        seq_t *wps = (seq_t *)malloc(sizeof(seq_t) * n);
        volatile seq_t d;
        if (ndim == 1) d = dtw_warping_paths_affinity(wps, s1, l1, s2, l2, true, true, true, triu, 1.0, 0.3, -0.5, 0.5, s);
        else d = dtw_warping_paths_affinity_ndim(wps, s1, l1, s2, l2, true, true, true, triu, ndim, 1.0, 0.3, -0.5, 0.5, s);
        (void)d;
        seq_t *full = (seq_t *)malloc(sizeof(seq_t) * (l1 + 1) * (l2 + 1));
        dtw_expand_wps_affinity(wps, full, l1, l2, s);
        free(full);
        DTWWps p = dtw_wps_parts(l1, l2, s);
        idx_t mr = 0, mc = 0;
        volatile idx_t mx = dtw_wps_max(&p, wps, &mr, &mc, l1, l2);
        if (mx > 0 && mr >= 1 && mc >= 1) {
            idx_t *i1 = (idx_t *)malloc(sizeof(idx_t) * (l1 + l2)), *i2 = (idx_t *)malloc(sizeof(idx_t) * (l1 + l2));
            volatile idx_t ln = dtw_best_path_affinity(wps, i1, i2, l1, l2, mr, mc, s);
            (void)ln;
            free(i1); free(i2);
        }
        free(wps);
    }
    free(s1); free(s2);
}

/* ---------------------------------------------------------------- bounds */
static void do_bounds(idx_t l1, idx_t l2) {
    for (int ndim = 1; ndim <= 3; ndim++) for (int pattern = 0; pattern < 3; pattern++) {
        seq_t *s1 = series(l1, ndim, pattern, 0), *s2 = series(l2, ndim, pattern, 1);
        if (cfg("euclidean/ub l1=%zd l2=%zd ndim=%d pattern=%d", l1, l2, ndim, pattern)) {
            volatile seq_t v;
            if (ndim == 1) {
                v = euclidean_distance(s1, l1, s2, l2); v = euclidean_distance_euclidean(s1, l1, s2, l2);
                v = ub_euclidean(s1, l1, s2, l2); v = ub_euclidean_euclidean(s1, l1, s2, l2);
            }
            v = euclidean_distance_ndim(s1, l1, s2, l2, ndim); v = euclidean_distance_ndim_euclidean(s1, l1, s2, l2, ndim);
            v = ub_euclidean_ndim(s1, l1, s2, l2, ndim); v = ub_euclidean_ndim_euclidean(s1, l1, s2, l2, ndim);
            (void)v;
        }
        if (ndim == 1) for (idx_t w = 0; w <= MAX(l1, l2) + 1; w++) for (int inner = 0; inner <= 1; inner++) {
            if (!cfg("lb_keogh l1=%zd l2=%zd window=%zd inner=%d pattern=%d", l1, l2, w, inner, pattern)) continue;
            DTWSettings s = dtw_settings_default(); s.window = w; s.inner_dist = inner;
            volatile seq_t v = lb_keogh(s1, l1, s2, l2, &s);
            (void)v;
        }
        free(s1); free(s2);
    }
}

/* ---------------------------------------------------------------- distance matrices: every block of n <= 4 series */
static void do_distances(idx_t n, idx_t maxlen) {
    for (int ndim = 1; ndim <= 2; ndim++) for (int equal = 0; equal <= 1; equal++) for (int opt = 0; opt < 2; opt++) {
        idx_t lens[8];
        seq_t *ptrs[8];
        for (idx_t i = 0; i < n; i++) { lens[i] = equal ? maxlen : 1 + (i % maxlen); ptrs[i] = series(lens[i], ndim, 1 + (i % 2), (int)i); }
        seq_t *mat = NULL;
        if (equal) { mat = (seq_t *)malloc(sizeof(seq_t) * n * maxlen * ndim); for (idx_t i = 0; i < n; i++) memcpy(mat + i * maxlen * ndim, ptrs[i], sizeof(seq_t) * maxlen * ndim); }
        DTWSettings s = dtw_settings_default();
        if (opt) { s.window = 1; s.psi_1b = s.psi_1e = s.psi_2b = s.psi_2e = 1; }
        for (int form = -1; form < 2; form++)
        for (idx_t rb = 0; rb < (form < 0 ? 1 : n); rb++) for (idx_t re = rb + 1; re <= (form < 0 ? 1 : n); re++)
        for (idx_t cb = 0; cb < (form < 0 ? 1 : n); cb++) for (idx_t ce = cb + 1; ce <= (form < 0 ? 1 : n); ce++)
        for (int par = 0; par <= 1; par++) {
            if (!cfg("dtw_distances n=%zd ndim=%d equal=%d opt=%d block=(%zd,%zd,%zd,%zd) form=%d parallel=%d", n, ndim, equal, opt, rb, re, cb, ce, form, par)) continue;
            for (int kind = 0; kind < 3; kind++) {
                if (kind > 0 && !equal) continue;
                if (kind == 2 && form < 0) continue;
                DTWBlock b = dtw_block_empty();
                if (form >= 0) { b.rb = rb; b.re = re; b.cb = cb; b.ce = ce; b.triu = form == 1; }
                idx_t len = dtw_distances_length(&b, n, n);
                seq_t *out = (seq_t *)malloc(sizeof(seq_t) * (len > 0 ? len : 1));
                DTWBlock b2 = b;
                volatile idx_t got;
                if (kind == 0) {
                    if (ndim == 1) got = par ? dtw_distances_ptrs_parallel(ptrs, n, lens, out, &b2, &s) : dtw_distances_ptrs(ptrs, n, lens, out, &b2, &s);
                    else got = par ? dtw_distances_ndim_ptrs_parallel(ptrs, n, lens, ndim, out, &b2, &s) : dtw_distances_ndim_ptrs(ptrs, n, lens, ndim, out, &b2, &s);
                } else if (kind == 1) {
                    if (ndim == 1) got = par ? dtw_distances_matrix_parallel(mat, n, maxlen, out, &b2, &s) : dtw_distances_matrix(mat, n, maxlen, out, &b2, &s);
                    else got = par ? dtw_distances_ndim_matrix_parallel(mat, n, maxlen, ndim, out, &b2, &s) : dtw_distances_ndim_matrix(mat, n, maxlen, ndim, out, &b2, &s);
                } else {
                    if (ndim == 1) got = par ? dtw_distances_matrices_parallel(mat, n, maxlen, mat, n, maxlen, out, &b2, &s) : dtw_distances_matrices(mat, n, maxlen, mat, n, maxlen, out, &b2, &s);
                    else got = par ? dtw_distances_ndim_matrices_parallel(mat, n, maxlen, mat, n, maxlen, ndim, out, &b2, &s) : dtw_distances_ndim_matrices(mat, n, maxlen, mat, n, maxlen, ndim, out, &b2, &s);
                }
                (void)got;
                free(out);
            }
        }
        for (idx_t i = 0; i < n; i++) free(ptrs[i]);
        free(mat);
    }
}

/* ---------------------------------------------------------------- DBA: <= 3 series, all length combinations, every mask */
static void do_dba(idx_t t, idx_t maxlen) {
    for (int ndim = 1; ndim <= 2; ndim++) for (idx_t n = 1; n <= 3; n++)
    for (idx_t la = 1; la <= maxlen; la++) for (idx_t lb = 1; lb <= (n > 1 ? maxlen : 1); lb++) for (idx_t lc = 1; lc <= (n > 2 ? maxlen : 1); lc += (g_thorough ? 1 : 2))
    for (idx_t w = 0; w <= 2; w++) for (unsigned mask = 1; mask < (1u << n); mask++) for (int prob = 0; prob <= (g_thorough ? 1 : 0); prob++) {
        if (!cfg("dtw_dba t=%zd n=%zd lens=(%zd,%zd,%zd) ndim=%d window=%zd mask=%u prob=%d", t, n, la, lb, lc, ndim, w, mask, prob)) continue;
        idx_t lens[3] = {la, lb, lc};
        seq_t *ptrs[3];
        for (idx_t i = 0; i < n; i++) ptrs[i] = series(lens[i], ndim, 1 + (i % 2), (int)i);
        seq_t *c = series(t, ndim, 1, 3);
        ba_t *m = (ba_t *)malloc(1);   /* bit_bytes(n) rounds down for n < 4: the wrappers pass at least one byte */
        m[0] = (ba_t)mask;
        DTWSettings s = dtw_settings_default(); s.window = w;
        dtw_dba_ptrs(ptrs, n, lens, c, t, m, prob ? 2 : 0, ndim, &s);
        if (la == lb && lb == lc) {
            seq_t *mat = (seq_t *)malloc(sizeof(seq_t) * n * la * ndim);
            for (idx_t i = 0; i < n; i++) memcpy(mat + i * la * ndim, ptrs[i], sizeof(seq_t) * la * ndim);
            dtw_dba_matrix(mat, n, la, c, t, m, prob ? 2 : 0, ndim, &s);
            free(mat);
        }
        free(m); free(c);
        for (idx_t i = 0; i < n; i++) free(ptrs[i]);
    }
}

int main(int argc, char **argv) {
    if (argc < 7) { fprintf(stderr, "usage\n"); return 64; }
    const char *group = argv[1];
    idx_t l1 = atol(argv[2]), l2 = atol(argv[3]), maxlen = atol(argv[4]);
    g_start = atol(argv[5]);
    g_thorough = atoi(argv[6]);
    if (!strcmp(group, "distance")) for_settings(l1, l2, 1, do_distance);
    else if (!strcmp(group, "wps")) for_settings(l1, l2, 1, do_wps);
    else if (!strcmp(group, "slices")) for_settings(l1, l2, 0, do_slices);
    else if (!strcmp(group, "affinity")) for_settings(l1, l2, 0, do_affinity);
    else if (!strcmp(group, "bounds")) do_bounds(l1, l2);
    else if (!strcmp(group, "distances")) do_distances(l1, maxlen);
    else if (!strcmp(group, "dba")) do_dba(l1, maxlen);
    else return 64;
    printf("DONE %ld %ld\n", g_idx, g_calls);
    return 0;
}
