/* Flat-argument helpers compiled against the repository's own headers, so that a change of
 * struct layout cannot desynchronise the ctypes harness.  All repo functions are called
 * directly through ctypes; only struct construction goes through here. */
#include "dd_dtw.h"
#include "dd_dtw_openmp.h"
#include <string.h>

static DTWSettings g_s;
static DTWBlock g_b;
static DTWWps g_p;

void *v_settings(idx_t window, seq_t max_dist, seq_t max_step, idx_t max_length_diff, seq_t penalty,
                 idx_t p1b, idx_t p1e, idx_t p2b, idx_t p2e, int use_pruning, int only_ub, int inner_dist) {
    g_s = dtw_settings_default();
    g_s.window = window; g_s.max_dist = max_dist; g_s.max_step = max_step;
    g_s.max_length_diff = max_length_diff; g_s.penalty = penalty;
    g_s.psi_1b = p1b; g_s.psi_1e = p1e; g_s.psi_2b = p2b; g_s.psi_2e = p2e;
    g_s.use_pruning = use_pruning; g_s.only_ub = only_ub; g_s.inner_dist = inner_dist;
    return &g_s;
}
void *v_block(idx_t rb, idx_t re, idx_t cb, idx_t ce, int triu) {
    g_b = dtw_block_empty();
    g_b.rb = rb; g_b.re = re; g_b.cb = cb; g_b.ce = ce; g_b.triu = triu;
    return &g_b;
}
void *v_parts(idx_t l1, idx_t l2, DTWSettings *s) { g_p = dtw_wps_parts(l1, l2, s); return &g_p; }
idx_t v_parts_field(int k) {
    switch (k) { case 0: return g_p.width; case 1: return g_p.length; case 2: return g_p.ri1; case 3: return g_p.ri2;
                 case 4: return g_p.ri3; case 5: return g_p.window; case 6: return g_p.ldiff; default: return -1; }
}
int v_sizeof_idx(void) { return (int)sizeof(idx_t); }
int v_sizeof_seq(void) { return (int)sizeof(seq_t); }
