/* vomp - a virtual OpenMP runtime with an explorer-controlled cooperative scheduler.
 *
 * The repository's C files are compiled by gcc with -fopenmp (so `#pragma omp parallel for` is
 * outlined exactly as shipped) and -fsanitize=thread as an *instrumentation pass only*; the objects
 * are linked against this file instead of libgomp/libtsan.  Virtual threads are ucontext coroutines.
 * Scheduling points: every runtime call (work-share start/next/end, barrier, critical, atomics) and
 * every instrumented access to an address in the frozen conflict set.  The work-sharing schedule is
 * chosen by the explorer (static-1, static-block, dynamic-1, dynamic-2, guided), whatever the pragma says.
 * A shadow map finds conflicting accesses (different virtual threads, at least one write, same region).
 */
#define _GNU_SOURCE
#include <ucontext.h>
#include <stdio.h>
#include <stdlib.h>
#include <string.h>
#include <stdbool.h>
#include <stdint.h>

#define MAXT 8
#define STACKSZ (512 * 1024)
#define MAXPTS 4096

enum { ST_RUN = 0, ST_DONE, ST_BARRIER, ST_LOCK };
typedef struct { ucontext_t ctx; char *stack; int state; int waitlock; } vthread;
static vthread th[MAXT];
static ucontext_t sched_ctx;
static int nthreads = 1, cur = -1, in_region = 0;
static void (*region_fn)(void *);
static void *region_data;

/* configuration set by the explorer */
static int cfg_threads = 2, cfg_dispatch = 2;   /* 0 static-1, 1 static-block, 2 dynamic-1, 3 dynamic-2, 4 guided */

/* loop (work-share) state */
static long L_start, L_end, L_incr, L_next, L_n;
static int L_init = 0, L_gen = 0;
static long T_cursor[MAXT];
static int T_gen[MAXT];

/* choice sequence */
static int prefix[MAXPTS], prefix_len = 0;
static int choices[MAXPTS], nen[MAXPTS], ispre[MAXPTS], npts = 0;
static int diverged = 0, deadlock = 0, overflow_pts = 0;
static long n_yields_mem = 0, iter_by_thread[MAXT];

/* barrier / locks */
static int bar_count = 0, bar_gen = 0;
static int lock_owner[64];

/* ---------------------------------------------------------------- arena allocator (deterministic addresses) */
#define ARENA (8u << 20)
static char *arena = NULL;
static size_t arena_top = 0;
typedef struct { size_t size; size_t pad; } ahdr;

/* ---------------------------------------------------------------- shadow map for race detection */
#define SH (1u << 16)
typedef struct { uintptr_t a; int wt; unsigned rmask; } shadow;
static shadow sh[SH];
static uintptr_t sh_used[SH];
static unsigned sh_nused = 0;
static long races = 0;
#define MAXCONF 256
static uintptr_t race_addr[MAXCONF];
static int n_race_addr = 0;
static uintptr_t conflict[MAXCONF];
static int n_conflict = 0;

static void shadow_reset(void) {
    for (unsigned i = 0; i < sh_nused; i++) { shadow *s = &sh[sh_used[i]]; s->a = 0; s->wt = -1; s->rmask = 0; }
    sh_nused = 0;
}
static shadow *sh_get(uintptr_t a) {
    size_t h = (size_t)((a * 11400714819323198485ull) >> 48) & (SH - 1);
    for (;;) {
        if (sh[h].a == a) return &sh[h];
        if (sh[h].a == 0) {
            if (sh_nused >= SH / 2) { fprintf(stderr, "vomp: shadow map full (%u words touched in one region)\n", sh_nused); abort(); }
            sh[h].a = a; sh[h].wt = -1; sh[h].rmask = 0; sh_used[sh_nused++] = h; return &sh[h];
        }
        h = (h + 1) & (SH - 1);
    }
}
static shadow *sh_find(uintptr_t a) {
    size_t h = (size_t)((a * 11400714819323198485ull) >> 48) & (SH - 1);
    for (;;) {
        if (sh[h].a == a) return &sh[h];
        if (sh[h].a == 0) return NULL;
        h = (h + 1) & (SH - 1);
    }
}
static int in_set(uintptr_t *set, int n, uintptr_t a) { for (int i = 0; i < n; i++) if (set[i] == a) return 1; return 0; }
static void note_race(uintptr_t a) { races++; if (!in_set(race_addr, n_race_addr, a) && n_race_addr < MAXCONF) race_addr[n_race_addr++] = a; }

static void yield_point(void) {
    if (!in_region || cur < 0) return;
    swapcontext(&th[cur].ctx, &sched_ctx);
}

static void access_(void *p, int w, int size) {
    if (!in_region || cur < 0) return;
    uintptr_t a0 = (uintptr_t)p & ~(uintptr_t)7;
    uintptr_t a1 = ((uintptr_t)p + size - 1) & ~(uintptr_t)7;
    for (uintptr_t a = a0; a <= a1; a += 8) {
        if (n_conflict && in_set(conflict, n_conflict, a)) { n_yields_mem++; yield_point(); }
        shadow *s = sh_get(a);
        if (w) {
            if ((s->wt >= 0 && s->wt != cur) || (s->rmask & ~(1u << cur))) note_race(a);
            s->wt = cur;
        } else {
            if (s->wt >= 0 && s->wt != cur) note_race(a);
            s->rmask |= 1u << cur;
        }
    }
}

void __tsan_init(void) {}
void __tsan_func_entry(void *p) { (void)p; }
void __tsan_func_exit(void) {}
#define RW(n) void __tsan_read##n(void *p) { access_(p, 0, n); } void __tsan_write##n(void *p) { access_(p, 1, n); } \
              void __tsan_unaligned_read##n(void *p) { access_(p, 0, n); } void __tsan_unaligned_write##n(void *p) { access_(p, 1, n); }
RW(1) RW(2) RW(4) RW(8) RW(16)
void __tsan_read_range(void *p, unsigned long n) { for (unsigned long i = 0; i < n; i += 8) access_((char *)p + i, 0, 8); }
void __tsan_write_range(void *p, unsigned long n) { for (unsigned long i = 0; i < n; i += 8) access_((char *)p + i, 1, 8); }
void __tsan_vptr_update(void **p, void *v) { (void)p; (void)v; }
void __tsan_vptr_read(void **p) { (void)p; }
void *__tsan_memcpy(void *d, const void *s, unsigned long n) { __tsan_read_range((void *)s, n); __tsan_write_range(d, n); return memcpy(d, s, n); }
void *__tsan_memset(void *d, int c, unsigned long n) { __tsan_write_range(d, n); return memset(d, c, n); }
void *__tsan_memmove(void *d, const void *s, unsigned long n) { __tsan_read_range((void *)s, n); __tsan_write_range(d, n); return memmove(d, s, n); }
/* atomics: a scheduling point followed by the plain operation (sequentially consistent model) */
#define ATOM(bits, T) \
    T __tsan_atomic##bits##_load(const volatile T *a, int mo) { (void)mo; yield_point(); return *a; } \
    void __tsan_atomic##bits##_store(volatile T *a, T v, int mo) { (void)mo; yield_point(); *a = v; } \
    T __tsan_atomic##bits##_exchange(volatile T *a, T v, int mo) { (void)mo; yield_point(); T o = *a; *a = v; return o; } \
    T __tsan_atomic##bits##_fetch_add(volatile T *a, T v, int mo) { (void)mo; yield_point(); T o = *a; *a = o + v; return o; } \
    T __tsan_atomic##bits##_fetch_sub(volatile T *a, T v, int mo) { (void)mo; yield_point(); T o = *a; *a = o - v; return o; } \
    int __tsan_atomic##bits##_compare_exchange_strong(volatile T *a, T *c, T v, int mo, int fmo) { (void)mo; (void)fmo; yield_point(); if (*a == *c) { *a = v; return 1; } *c = *a; return 0; } \
    int __tsan_atomic##bits##_compare_exchange_weak(volatile T *a, T *c, T v, int mo, int fmo) { return __tsan_atomic##bits##_compare_exchange_strong(a, c, v, mo, fmo); }
ATOM(8, uint8_t) ATOM(16, uint16_t) ATOM(32, uint32_t) ATOM(64, uint64_t)
void __tsan_atomic_thread_fence(int mo) { (void)mo; }
void __tsan_atomic_signal_fence(int mo) { (void)mo; }

void *vomp_malloc(size_t n) {
    if (!arena) arena = (char *)malloc(ARENA);
    size_t need = (n + sizeof(ahdr) + 15) & ~(size_t)15;
    if (arena_top + need > ARENA) { fprintf(stderr, "vomp: arena exhausted\n"); abort(); }
    ahdr *h = (ahdr *)(arena + arena_top);
    h->size = n;
    arena_top += need;
    return (void *)(h + 1);
}
void vomp_free(void *p) {
    if (!p) return;
    /* the block may be recycled by another virtual thread: forget its access history */
    ahdr *h = (ahdr *)p - 1;
    uintptr_t a0 = (uintptr_t)p & ~(uintptr_t)7, a1 = ((uintptr_t)p + h->size + 7) & ~(uintptr_t)7;
    if (in_region) for (uintptr_t a = a0; a < a1; a += 8) { shadow *s = sh_find(a); if (s) { s->wt = -1; s->rmask = 0; } }
    /* memory itself is released when the arena is reset at the start of the next execution */
}
void *vomp_calloc(size_t a, size_t b) { void *p = vomp_malloc(a * b); memset(p, 0, a * b); return p; }

/* ---------------------------------------------------------------- OpenMP API */
int omp_get_thread_num(void) { return cur < 0 ? 0 : cur; }
int omp_get_num_threads(void) { return in_region ? nthreads : 1; }
int omp_get_max_threads(void) { return cfg_threads; }
int omp_get_num_procs(void) { return cfg_threads; }
int omp_in_parallel(void) { return in_region; }
void omp_set_num_threads(int n) { (void)n; }
double omp_get_wtime(void) { return 0.0; }

static void trampoline(int id) {
    region_fn(region_data);
    th[id].state = ST_DONE;
    swapcontext(&th[id].ctx, &sched_ctx);
}

static int enabled(int i) {
    if (th[i].state == ST_RUN) return 1;
    if (th[i].state == ST_LOCK) return lock_owner[th[i].waitlock] < 0;
    return 0;
}

static void run_region(void (*fn)(void *), void *data) {
    nthreads = cfg_threads;
    region_fn = fn; region_data = data;
    L_init = 0; bar_count = 0;
    shadow_reset();
    for (int i = 0; i < 64; i++) lock_owner[i] = -1;
    for (int i = 0; i < nthreads; i++) {
        th[i].state = ST_RUN; T_gen[i] = -1; iter_by_thread[i] = 0;
        if (!th[i].stack) th[i].stack = (char *)malloc(STACKSZ);
        getcontext(&th[i].ctx);
        th[i].ctx.uc_stack.ss_sp = th[i].stack;
        th[i].ctx.uc_stack.ss_size = STACKSZ;
        th[i].ctx.uc_link = &sched_ctx;
        makecontext(&th[i].ctx, (void (*)(void))trampoline, 1, i);
    }
    in_region = 1;
    int last = -1;
    for (;;) {
        int en[MAXT], ne = 0, alive = 0;
        for (int i = 0; i < nthreads; i++) if (th[i].state != ST_DONE) alive++;
        if (!alive) break;
        /* canonical order: the thread that ran last first (if still enabled), then ascending ids */
        if (last >= 0 && enabled(last)) en[ne++] = last;
        for (int i = 0; i < nthreads; i++) if (i != last && enabled(i)) en[ne++] = i;
        if (ne == 0) { deadlock = 1; break; }
        int c = 0;
        if (npts < prefix_len) c = prefix[npts];
        if (c >= ne) { diverged = 1; c = 0; }
        if (npts < MAXPTS) { choices[npts] = c; nen[npts] = ne; ispre[npts] = (last >= 0 && enabled(last)) ? 1 : 0; npts++; }
        else overflow_pts = 1;
        cur = en[c]; last = cur;
        if (th[cur].state == ST_LOCK) { lock_owner[th[cur].waitlock] = cur; th[cur].state = ST_RUN; }
        swapcontext(&sched_ctx, &th[cur].ctx);
    }
    in_region = 0; cur = -1;
}

void GOMP_parallel(void (*fn)(void *), void *data, unsigned num_threads, unsigned flags) {
    (void)num_threads; (void)flags;
    run_region(fn, data);
}

/* ---- work sharing: one implementation behind every GOMP_loop_* flavour */
static void loop_init(long start, long end, long incr) {
    if (L_init) return;
    L_init = 1; L_gen++;
    L_start = start; L_end = end; L_incr = incr; L_next = start;
    L_n = incr > 0 ? (end - start + incr - 1) / incr : (start - end - incr - 1) / (-incr);
    if (L_n < 0) L_n = 0;
}
static bool loop_next(long *istart, long *iend) {
    int t = cur < 0 ? 0 : cur;
    long k0, k1;   /* iteration numbers [k0, k1) */
    if (T_gen[t] != L_gen) { T_gen[t] = L_gen; T_cursor[t] = 0; }
    switch (cfg_dispatch) {
        case 0:   /* static, chunk 1: iterations t, t+T, ... */
            k0 = t + T_cursor[t] * nthreads; k1 = k0 + 1; T_cursor[t]++;
            if (k0 >= L_n) return false;
            break;
        case 1: { /* static, one block per thread */
            if (T_cursor[t]) return false;
            T_cursor[t] = 1;
            long per = (L_n + nthreads - 1) / nthreads;
            k0 = t * per; k1 = k0 + per; if (k1 > L_n) k1 = L_n;
            if (k0 >= k1) return false;
            break; }
        case 2: case 3: { /* dynamic, chunk 1 / 2 */
            long ch = cfg_dispatch == 2 ? 1 : 2;
            k0 = (L_next - L_start) / L_incr; if (k0 >= L_n) return false;
            k1 = k0 + ch; if (k1 > L_n) k1 = L_n;
            L_next = L_start + k1 * L_incr;
            break; }
        default: { /* guided */
            k0 = (L_next - L_start) / L_incr; if (k0 >= L_n) return false;
            long ch = (L_n - k0 + nthreads - 1) / nthreads; if (ch < 1) ch = 1;
            k1 = k0 + ch; if (k1 > L_n) k1 = L_n;
            L_next = L_start + k1 * L_incr;
            break; }
    }
    *istart = L_start + k0 * L_incr;
    *iend = L_start + k1 * L_incr;
    iter_by_thread[t] += k1 - k0;
    return true;
}
static bool vstart(long start, long end, long incr, long *istart, long *iend) {
    yield_point();
    loop_init(start, end, incr);
    bool r = loop_next(istart, iend);
    return r;
}
/* combined parallel-loop constructs pass the bounds to GOMP_parallel_loop_*; the team only calls *_next */
static long PL_s, PL_e, PL_i; static int PL_set = 0;
static bool vnext(long *istart, long *iend) { yield_point(); if (!L_init && PL_set) loop_init(PL_s, PL_e, PL_i); return loop_next(istart, iend); }

#define LOOPFLAVOUR(name) \
    bool GOMP_loop_##name##_start(long s, long e, long i, long ch, long *is, long *ie) { (void)ch; return vstart(s, e, i, is, ie); } \
    bool GOMP_loop_##name##_next(long *is, long *ie) { return vnext(is, ie); }
LOOPFLAVOUR(static) LOOPFLAVOUR(dynamic) LOOPFLAVOUR(guided)
LOOPFLAVOUR(nonmonotonic_dynamic) LOOPFLAVOUR(nonmonotonic_guided)
bool GOMP_loop_runtime_start(long s, long e, long i, long *is, long *ie) { return vstart(s, e, i, is, ie); }
bool GOMP_loop_runtime_next(long *is, long *ie) { return vnext(is, ie); }
bool GOMP_loop_nonmonotonic_runtime_start(long s, long e, long i, long *is, long *ie) { return vstart(s, e, i, is, ie); }
bool GOMP_loop_nonmonotonic_runtime_next(long *is, long *ie) { return vnext(is, ie); }
bool GOMP_loop_maybe_nonmonotonic_runtime_start(long s, long e, long i, long *is, long *ie) { return vstart(s, e, i, is, ie); }
bool GOMP_loop_maybe_nonmonotonic_runtime_next(long *is, long *ie) { return vnext(is, ie); }

#define PARLOOP(name) \
    void GOMP_parallel_loop_##name(void (*fn)(void *), void *data, unsigned nt, long s, long e, long i, long ch, unsigned flags) { \
        (void)nt; (void)ch; (void)flags; PL_s = s; PL_e = e; PL_i = i; PL_set = 1; run_region(fn, data); PL_set = 0; }
PARLOOP(static) PARLOOP(dynamic) PARLOOP(guided) PARLOOP(nonmonotonic_dynamic) PARLOOP(nonmonotonic_guided)
void GOMP_parallel_loop_runtime(void (*fn)(void *), void *data, unsigned nt, long s, long e, long i, unsigned flags) {
    (void)nt; (void)flags; PL_s = s; PL_e = e; PL_i = i; PL_set = 1; run_region(fn, data); PL_set = 0; }
void GOMP_parallel_loop_nonmonotonic_runtime(void (*fn)(void *), void *data, unsigned nt, long s, long e, long i, unsigned flags) {
    GOMP_parallel_loop_runtime(fn, data, nt, s, e, i, flags); }
void GOMP_parallel_loop_maybe_nonmonotonic_runtime(void (*fn)(void *), void *data, unsigned nt, long s, long e, long i, unsigned flags) {
    GOMP_parallel_loop_runtime(fn, data, nt, s, e, i, flags); }
__attribute__((constructor)) static void vomp_ctor(void) { for (int i = 0; i < 64; i++) lock_owner[i] = -1; }

void GOMP_loop_end(void) {   /* implies a barrier */
    yield_point();
    if (!in_region) return;
    int gen = bar_gen;
    bar_count++;
    if (bar_count == nthreads) { bar_count = 0; bar_gen++; L_init = 0; for (int i = 0; i < nthreads; i++) if (th[i].state == ST_BARRIER) th[i].state = ST_RUN; return; }
    th[cur].state = ST_BARRIER;
    while (bar_gen == gen) swapcontext(&th[cur].ctx, &sched_ctx);
}
void GOMP_loop_end_nowait(void) { yield_point(); }
bool GOMP_loop_end_cancel(void) { GOMP_loop_end(); return false; }
void GOMP_barrier(void) { GOMP_loop_end(); }
bool GOMP_single_start(void) { static int gen = -1; yield_point(); if (gen != bar_gen) { gen = bar_gen; return true; } return false; }

static void vlock(int id) {
    yield_point();
    if (!in_region) return;
    while (lock_owner[id] >= 0 && lock_owner[id] != cur) { th[cur].state = ST_LOCK; th[cur].waitlock = id; swapcontext(&th[cur].ctx, &sched_ctx); }
    lock_owner[id] = cur;
}
static void vunlock(int id) { if (in_region) lock_owner[id] = -1; yield_point(); }
void GOMP_critical_start(void) { vlock(0); }
void GOMP_critical_end(void) { vunlock(0); }
void GOMP_critical_name_start(void **p) { vlock(1 + (int)(((uintptr_t)p >> 3) % 60)); }
void GOMP_critical_name_end(void **p) { vunlock(1 + (int)(((uintptr_t)p >> 3) % 60)); }
void GOMP_atomic_start(void) { vlock(62); }
void GOMP_atomic_end(void) { vunlock(62); }

/* ---------------------------------------------------------------- explorer API */
void vomp_config(int threads, int dispatch) { cfg_threads = threads > MAXT ? MAXT : threads; cfg_dispatch = dispatch; }
void vomp_begin(const int *p, int n) {
    if (n > MAXPTS) n = MAXPTS;
    memcpy(prefix, p, n * sizeof(int)); prefix_len = n;
    npts = 0; diverged = 0; deadlock = 0; overflow_pts = 0; races = 0; n_yields_mem = 0;
    arena_top = 0;
}
int vomp_npts(void) { return npts; }
const int *vomp_choices(void) { return choices; }
const int *vomp_nen(void) { return nen; }
const int *vomp_ispre(void) { return ispre; }
int vomp_diverged(void) { return diverged; }
int vomp_deadlock(void) { return deadlock; }
int vomp_overflow(void) { return overflow_pts; }
long vomp_races(void) { return races; }
int vomp_race_addrs(void) { return n_race_addr; }
void vomp_freeze_conflicts(void) { n_conflict = n_race_addr; memcpy(conflict, race_addr, sizeof(uintptr_t) * n_race_addr); }
void vomp_clear_conflicts(void) { n_conflict = 0; n_race_addr = 0; }
int vomp_nconflict(void) { return n_conflict; }
int vomp_threads_with_iterations(void) { int k = 0; for (int i = 0; i < cfg_threads; i++) if (iter_by_thread[i] > 0) k++; return k; }
