/* C07 driver: stateless model checking of the OpenMP distance-matrix routines under the vomp runtime.
 *   c07drv <entry 0..5> <n> <bound> <maxT> <allblocks 0/1> <maxexec>
 * For every block form x thread count x dispatch kind x settings variant: explore all interleavings of
 * scheduling points up to the preemption bound; every complete execution must produce an output that is
 * bitwise identical to the serial routine. */
#include "dd_dtw.h"
#include "dd_dtw_openmp.h"
#include <string.h>

void vomp_config(int threads, int dispatch);
void vomp_begin(const int *p, int n);
int vomp_npts(void); const int *vomp_choices(void); const int *vomp_nen(void); const int *vomp_ispre(void);
int vomp_diverged(void); int vomp_deadlock(void); int vomp_overflow(void); long vomp_races(void); int vomp_race_addrs(void);
void vomp_freeze_conflicts(void); void vomp_clear_conflicts(void); int vomp_nconflict(void); int vomp_threads_with_iterations(void);

#define NMAX 6
static int entry, n, bound, maxT;
static long maxexec;
static seq_t *ptrs[NMAX]; static idx_t lens[NMAX];
static seq_t *mat; static idx_t ncols; static int ndim;
static DTWSettings settings; static DTWBlock block0;
static seq_t ref[64], out[72]; static idx_t reflen;

static long execs, cfg_execs, viol, total_points, max_points, multi, configs, racy_cfgs, caps, distinct_out;
static int viol_printed = 0;
static char cfgdesc[256];

static idx_t call(int parallel, seq_t *o) {
    DTWBlock b = block0;   /* the routines complete the block in place */
    switch (entry) {
        case 0: return parallel ? dtw_distances_ptrs_parallel(ptrs, n, lens, o, &b, &settings) : dtw_distances_ptrs(ptrs, n, lens, o, &b, &settings);
        case 1: return parallel ? dtw_distances_ndim_ptrs_parallel(ptrs, n, lens, ndim, o, &b, &settings) : dtw_distances_ndim_ptrs(ptrs, n, lens, ndim, o, &b, &settings);
        case 2: return parallel ? dtw_distances_matrix_parallel(mat, n, ncols, o, &b, &settings) : dtw_distances_matrix(mat, n, ncols, o, &b, &settings);
        case 3: return parallel ? dtw_distances_ndim_matrix_parallel(mat, n, ncols, ndim, o, &b, &settings) : dtw_distances_ndim_matrix(mat, n, ncols, ndim, o, &b, &settings);
        case 4: return parallel ? dtw_distances_matrices_parallel(mat, n, ncols, mat, n, ncols, o, &b, &settings) : dtw_distances_matrices(mat, n, ncols, mat, n, ncols, o, &b, &settings);
        default: return parallel ? dtw_distances_ndim_matrices_parallel(mat, n, ncols, mat, n, ncols, ndim, o, &b, &settings) : dtw_distances_ndim_matrices(mat, n, ncols, mat, n, ncols, ndim, o, &b, &settings);
    }
}

static void report(const char *kind, const int *pre, int np) {
    viol++;
    if (viol_printed < 12) {
        viol_printed++;
        printf("VIOL kind=%s %s schedule=", kind, cfgdesc);
        const int *ch = vomp_choices();
        for (int i = 0; i < vomp_npts() && i < 200; i++) printf("%d,", ch[i]);
        printf(" out=");
        for (idx_t i = 0; i < reflen && i < 12; i++) printf("%.6g,", out[i]);
        printf(" ref=");
        for (idx_t i = 0; i < reflen && i < 12; i++) printf("%.6g,", ref[i]);
        printf("\n");
    }
    (void)pre; (void)np;
}

static int run(const int *pre, int np) {
    for (int i = 0; i < 72; i++) out[i] = -7.0;
    vomp_begin(pre, np);
    idx_t len = call(1, out);
    execs++; cfg_execs++;
    int pts = vomp_npts();
    total_points += pts; if (pts > max_points) max_points = pts;
    if (vomp_threads_with_iterations() > 1) multi++;
    if (vomp_diverged()) { report("replay-divergence", pre, np); return 1; }
    if (vomp_deadlock()) { report("deadlock", pre, np); return 1; }
    if (vomp_overflow()) caps++;
    if (len != reflen || memcmp(out, ref, sizeof(seq_t) * reflen) != 0) { report("output-differs-from-serial", pre, np); return 1; }
    for (idx_t i = reflen; i < reflen + 4; i++) if (out[i] != -7.0) { report("write-past-advertised-length", pre, np); return 1; }
    return 0;
}

static int cfg_failed = 0, failed_cfgs = 0;
static void explore(int *pre, int np, int used) {
    if (cfg_failed) return;   /* one counterexample per configuration is enough */
    if (cfg_execs >= maxexec) { caps++; return; }
    if (run(pre, np)) { cfg_failed = 1; return; }
    int pts = vomp_npts();
    int *ch = (int *)malloc(sizeof(int) * (pts + 1)), *ne = (int *)malloc(sizeof(int) * (pts + 1)), *ip = (int *)malloc(sizeof(int) * (pts + 1));
    memcpy(ch, vomp_choices(), sizeof(int) * pts); memcpy(ne, vomp_nen(), sizeof(int) * pts); memcpy(ip, vomp_ispre(), sizeof(int) * pts);
    for (int i = np; i < pts; i++) {
        int cost = used + (ip[i] ? 1 : 0);
        if (cost > bound) continue;
        for (int alt = 1; alt < ne[i]; alt++) {
            int *p2 = (int *)malloc(sizeof(int) * (i + 1));
            memcpy(p2, ch, sizeof(int) * i); p2[i] = alt;
            explore(p2, i + 1, cost);
            free(p2);
        }
    }
    free(ch); free(ne); free(ip);
}

static void one_config(int T, int dispatch, int setting, const char *bdesc) {
    settings = dtw_settings_default();
    if (setting == 1) { settings.window = 2; settings.psi_1b = settings.psi_1e = settings.psi_2b = settings.psi_2e = 1; settings.penalty = 0.5; }
    if (setting == 2) { settings.use_pruning = true; }
    if (setting == 3) { settings.max_dist = 2.5; settings.psi_1b = 1; }
    if (setting == 4) { settings.max_length_diff = 1; }   /* some pairs are skipped (unequal lengths in the ptrs entries) */
    if (failed_cfgs >= 30) { caps++; return; }   /* enough counterexamples for this group */
    for (int i = 0; i < 64; i++) ref[i] = -7.0;
    vomp_begin(NULL, 0);            /* fresh arena for the serial reference run */
    reflen = call(0, ref);
    snprintf(cfgdesc, sizeof cfgdesc, "entry=%d n=%d block=%s T=%d dispatch=%d setting=%d bound=%d", entry, n, bdesc, T, dispatch, setting, bound);
    vomp_config(T, dispatch);
    vomp_clear_conflicts();
    configs++;
    cfg_execs = 0;
    cfg_failed = 0;
    long v0 = viol;
    /* phase A: scheduling points at runtime calls only; collects conflicting addresses */
    explore(NULL, 0, 0);
    int round = 0;
    while (!cfg_failed && vomp_race_addrs() > vomp_nconflict() && round < 3) {
        /* phase B: the collected conflict set is frozen and becomes additional scheduling points */
        if (round == 0) racy_cfgs++;
        vomp_freeze_conflicts();
        cfg_execs = 0;
        explore(NULL, 0, 0);
        round++;
    }
    if (cfg_failed) failed_cfgs++;
    if (vomp_nconflict() > 0 && viol == v0) printf("RACE-BENIGN %s conflict_addresses=%d\n", cfgdesc, vomp_nconflict());
}

int main(int argc, char **argv) {
    if (argc < 7) return 64;
    entry = atoi(argv[1]); n = atoi(argv[2]); bound = atoi(argv[3]); maxT = atoi(argv[4]);
    int allblocks = atoi(argv[5]); maxexec = atol(argv[6]);
    ndim = (entry == 1 || entry == 3 || entry == 5) ? 2 : 1;
    ncols = 3;
    mat = (seq_t *)malloc(sizeof(seq_t) * NMAX * ncols * ndim);
    for (int i = 0; i < n; i++) {
        lens[i] = (entry <= 1) ? 1 + (i * 2) % 4 : ncols;
        ptrs[i] = (seq_t *)malloc(sizeof(seq_t) * lens[i] * ndim);
        for (idx_t k = 0; k < lens[i] * ndim; k++) ptrs[i][k] = (seq_t)((i * 7 + k * 3) % 5) + 0.5 * (i % 2);
        for (idx_t k = 0; k < ncols * ndim; k++) mat[i * ncols * ndim + k] = (seq_t)((i * 5 + k * 2) % 7) - 0.25 * i;
    }
    char bdesc[64];
    for (int form = -1; form < 2; form++) {
        int lim = form < 0 ? 1 : n;
        for (int rb = 0; rb < lim; rb++) for (int re = rb + 1; re <= lim; re++)
        for (int cb = 0; cb < lim; cb++) for (int ce = cb + 1; ce <= lim; ce++) {
            block0 = dtw_block_empty();
            if (form >= 0) {
                if (entry >= 4 && 0) continue;
                block0.rb = rb; block0.re = re; block0.cb = cb; block0.ce = ce; block0.triu = form == 1;
                if (!allblocks) {
                    /* covering subset: upper-right, crossing the diagonal, below the diagonal, single row, full */
                    int keep = (rb == 0 && re == n && cb == 0 && ce == n) || (rb == 0 && re == n / 2 && cb == n / 2 && ce == n) ||
                               (rb == 1 && re == n && cb == 0 && ce == n - 1) || (rb == n / 2 && re == n && cb == 0 && ce == n / 2) ||
                               (rb == 1 && re == 2 && cb == 0 && ce == n);
                    if (!keep) continue;
                }
                snprintf(bdesc, sizeof bdesc, "(%d,%d,%d,%d,%s)", rb, re, cb, ce, form == 1 ? "triu" : "full");
            } else {
                if (entry >= 4) { /* matrices variants need an explicit block for a defined layout */ }
                snprintf(bdesc, sizeof bdesc, "none");
            }
            for (int T = 1; T <= maxT; T++) for (int dispatch = 0; dispatch < 5; dispatch++) for (int setting = 0; setting < 5; setting++) {
                if (T == 1 && dispatch > 0) continue;
                if (setting >= 2 && dispatch != 0 && dispatch != 2) continue;   /* pruning / max_dist variants: static-1 and dynamic-1 */
                one_config(T, dispatch, setting, bdesc);
            }
        }
    }
    printf("STAT entry=%d n=%d configs=%ld execs=%ld points_total=%ld points_max=%ld multi_thread_execs=%ld racy_configs=%ld viol=%ld caps=%ld\n",
           entry, n, configs, execs, total_points, max_points, multi, racy_cfgs, viol, caps);
    return viol ? 1 : 0;
}
