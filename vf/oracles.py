"""Reference models.  Plain Python, no NumPy, no rolling buffers, no offsets.

The DTW reference exists twice: `paths_value` enumerates every admissible warping path
explicitly (the definition in C01); `cells` computes "best cost of an admissible partial
path ending in (i, j)" by recursion over predecessor cells on an explicit set of in-band
cells.  `self_check` ties the second to the first on a complete small universe at the start
of every run that relies on it.
"""
import math

inf = float('inf')


# ----------------------------------------------------------------- point distances

def pd_sq(a, b):
    return (a - b) * (a - b)


def pd_eu(a, b):
    return abs(a - b)


def pd_sq_nd(a, b):
    return sum((x - y) * (x - y) for x, y in zip(a, b))


def pd_eu_nd(a, b):
    return math.sqrt(sum((x - y) * (x - y) for x, y in zip(a, b)))


class Inner:
    """An inner distance as the reference sees it: point distance, result transform, value transform."""

    def __init__(self, name, pd, result, ival):
        self.name = name
        self.pd = pd
        self.result = result
        self.ival = ival


def _id(x):
    return x


def _sqr(x):
    return x * x


INNER = {
    'squared euclidean': Inner('squared euclidean', pd_sq, math.sqrt, _sqr),
    'euclidean': Inner('euclidean', pd_eu, _id, _id),
}
INNER_ND = {
    'squared euclidean': Inner('squared euclidean', pd_sq_nd, math.sqrt, _sqr),
    'euclidean': Inner('euclidean', pd_eu_nd, _id, _id),
}


def inner_of(inner_dist, ndim=False):
    if isinstance(inner_dist, str):
        return (INNER_ND if ndim else INNER)[inner_dist]
    # user supplied object: the definition uses its own functions
    return Inner('custom', inner_dist.inner_dist, inner_dist.result, inner_dist.inner_val)


# ----------------------------------------------------------------- band / psi

def band_row(i, r, c, w):
    """[js, je) of in-band columns for row i; w=None means no band."""
    if w is None:
        return 0, c
    return max(0, i - max(0, r - c) - w + 1), min(c, i + max(0, c - r) + w)


def band_cells(r, c, w):
    s = set()
    for i in range(r):
        js, je = band_row(i, r, c, w)
        for j in range(js, je):
            s.add((i, j))
    return s


def norm_psi(psi):
    if psi is None:
        return (0, 0, 0, 0)
    if isinstance(psi, int):
        return (psi, psi, psi, psi)
    return tuple(psi)


def psi_degenerate(psi, r, c):
    """psi combinations that admit the empty alignment (excluded by C01's quantifier)."""
    p1b, p1e, p2b, p2e = norm_psi(psi)
    return (p1e >= r and p2b >= c) or (p2e >= c and p1b >= r)


def starts(r, c, psi):
    p1b, p1e, p2b, p2e = psi
    return set([(0, j) for j in range(c) if j <= p2b] + [(i, 0) for i in range(r) if i <= p1b])


def ends(r, c, psi):
    p1b, p1e, p2b, p2e = psi
    return set([(r - 1, j) for j in range(c) if c - 1 - j <= p2e] + [(i, c - 1) for i in range(r) if r - 1 - i <= p1e])


def pd_matrix(s1, s2, pd):
    return [[pd(a, b) for b in s2] for a in s1]


# ----------------------------------------------------------------- DTW by cells

def cells(P, r, c, w, pen, psi, ms):
    """D[(i,j)] = minimum cost of an admissible partial path ending at (i,j) (internal representation).

    P: point distance matrix, w: window or None, pen: penalty already transformed,
    psi: 4-tuple, ms: transformed max_step (inf = off)."""
    S = starts(r, c, psi)
    D = {}
    for i in range(r):
        js, je = band_row(i, r, c, w)
        for j in range(js, je):
            d = P[i][j]
            if d > ms:
                continue
            best = 0.0 if (i, j) in S else inf
            v = D.get((i - 1, j - 1))
            if v is not None and v < best:
                best = v
            v = D.get((i - 1, j))
            if v is not None and v + pen < best:
                best = v + pen
            v = D.get((i, j - 1))
            if v is not None and v + pen < best:
                best = v + pen
            if best < inf:
                D[(i, j)] = d + best
    return D


def cells_value(D, r, c, psi):
    best = inf
    for e in ends(r, c, psi):
        v = D.get(e)
        if v is not None and v < best:
            best = v
    return best


def paths_value(P, r, c, w, pen, psi, ms, collect=None):
    """Minimum over all explicitly enumerated admissible warping paths (internal representation).
    If collect is a list, all optimal paths are appended to it."""
    B = band_cells(r, c, w)
    E = ends(r, c, psi)
    best = [inf]
    npaths = [0]
    path = []

    def rec(i, j, cost):
        d = P[i][j]
        if d > ms:
            return
        cost += d
        path.append((i, j))
        if (i, j) in E:
            npaths[0] += 1
            if collect is not None:
                if cost < best[0]:
                    del collect[:]
                if cost <= best[0]:
                    collect.append(list(path))
            if cost < best[0]:
                best[0] = cost
        if i + 1 < r and j + 1 < c and (i + 1, j + 1) in B:
            rec(i + 1, j + 1, cost)
        if i + 1 < r and (i + 1, j) in B:
            rec(i + 1, j, cost + pen)
        if j + 1 < c and (i, j + 1) in B:
            rec(i, j + 1, cost + pen)
        path.pop()

    for (i, j) in sorted(starts(r, c, psi)):
        if (i, j) in B:
            rec(i, j, 0.0)
    return best[0], npaths[0]


def dtw_ref(s1, s2, window=None, penalty=None, psi=None, max_step=None, max_length_diff=None,
            inner_dist='squared euclidean', ndim=False, method='cells', internal=False):
    """Reference DTW distance per C01.  Returns the transformed value (or internal if asked)."""
    I = inner_of(inner_dist, ndim)
    r, c = len(s1), len(s2)
    if max_length_diff is not None and abs(r - c) > max_length_diff:
        return inf
    pen = I.ival(penalty) if penalty else 0.0
    ms = I.ival(max_step) if max_step else inf
    p = norm_psi(psi)
    P = pd_matrix(s1, s2, I.pd)
    if method == 'paths':
        v, _ = paths_value(P, r, c, window, pen, p, ms)
    else:
        v = cells_value(cells(P, r, c, window, pen, p, ms), r, c, p)
    if internal or v == inf:
        return v
    return I.result(v)


def path_cost(path, P, pen):
    """Internal cost of a given path (sum of point distances + penalty per non-diagonal step)."""
    cost = 0.0
    for k, (i, j) in enumerate(path):
        cost += P[i][j]
        if k > 0:
            pi, pj = path[k - 1]
            if not (i == pi + 1 and j == pj + 1):
                cost += pen
    return cost


def path_valid(path, r, c, w, psi, P=None, ms=inf, check_end=True):
    """None if `path` is an admissible warping path, else a reason string."""
    if not path:
        return 'empty path'
    B = band_cells(r, c, w)
    for k, (i, j) in enumerate(path):
        if not (0 <= i < r and 0 <= j < c):
            return 'cell %r outside the matrix' % ((i, j),)
        if (i, j) not in B:
            return 'cell %r outside the band' % ((i, j),)
        if P is not None and P[i][j] > ms:
            return 'cell %r exceeds max_step' % ((i, j),)
        if k > 0:
            pi, pj = path[k - 1]
            if (i - pi, j - pj) not in ((1, 1), (1, 0), (0, 1)):
                return 'illegal step %r -> %r' % ((pi, pj), (i, j))
    if tuple(path[0]) not in starts(r, c, psi):
        return 'start %r not in the relaxed corner' % (tuple(path[0]),)
    if check_end and tuple(path[-1]) not in ends(r, c, psi):
        return 'end %r not in the relaxed corner' % (tuple(path[-1]),)
    return None


# ----------------------------------------------------------------- bounds

def ed_ref(s1, s2, inner_dist='squared euclidean', ndim=False):
    I = inner_of(inner_dist, ndim)
    n = min(len(s1), len(s2))
    t = 0.0
    for k in range(n):
        t += I.pd(s1[k], s2[k])
    for k in range(n, len(s1)):
        t += I.pd(s1[k], s2[n - 1])
    for k in range(n, len(s2)):
        t += I.pd(s1[n - 1], s2[k])
    return I.result(t)


def lb_keogh_ref(s1, s2, window=None, inner_dist='squared euclidean'):
    """Sum over elements of s1 of the distance to the envelope of s2 inside the band row."""
    I = inner_of(inner_dist)
    r, c = len(s1), len(s2)
    t = 0.0
    for i in range(r):
        js, je = band_row(i, r, c, window)
        seg = s2[js:je]
        if not seg:
            continue
        u, l = max(seg), min(seg)
        if s1[i] > u:
            t += I.pd(s1[i], u)
        elif s1[i] < l:
            t += I.pd(s1[i], l)
    return I.result(t)


# ----------------------------------------------------------------- self check

def self_check(alphabet=(0.0, 1.0, 2.5), maxlen=3):
    """cells == explicit path enumeration on every case of a complete small universe.
    Returns the number of cases compared; raises AssertionError on disagreement."""
    import itertools
    n = 0
    sers = []
    for l in range(1, maxlen + 1):
        sers.extend(itertools.product(alphabet, repeat=l))
    psis = [(0, 0, 0, 0), (1, 0, 0, 0), (0, 1, 0, 0), (0, 0, 1, 0), (0, 0, 0, 1), (1, 1, 1, 1), (0, 2, 2, 0), (2, 0, 0, 2)]
    for s1 in sers:
        for s2 in sers:
            r, c = len(s1), len(s2)
            for inner in ('squared euclidean', 'euclidean'):
                I = INNER[inner]
                P = pd_matrix(s1, s2, I.pd)
                for w in (None, 1, 2):
                    for pen in (0.0, I.ival(0.5)):
                        for ms in (inf, I.ival(1.2)):
                            for psi in psis:
                                if psi_degenerate(psi, r, c) or max(psi[0], psi[1]) > r or max(psi[2], psi[3]) > c:
                                    continue
                                a = cells_value(cells(P, r, c, w, pen, psi, ms), r, c, psi)
                                b, _ = paths_value(P, r, c, w, pen, psi, ms)
                                assert a == b, ('oracle self-check', s1, s2, inner, w, pen, ms, psi, a, b)
                                n += 1
    return n
