"""Explorer core: accumulators, sharded parallel enumeration, known findings, evidence, replay files."""
import json
import math
import multiprocessing as mp
import os
import sys
import time
import traceback

VERIF = os.path.dirname(os.path.dirname(os.path.abspath(__file__)))
NWORKERS = int(os.environ.get('VERIF_WORKERS', str(min(16, os.cpu_count() or 4))))
MAXV = 400        # violation records kept per shard
MAXOUT = 20000    # distinct outcomes kept

inf = float('inf')
_CRUMB_FD = None
HANG_S = float(os.environ.get('VERIF_HANG_S', '90'))
_LAST_BEAT = 0.0


def jsonable(x):
    """Plain-JSON image of a case/value (tuples -> lists, numpy -> python, inf -> strings)."""
    try:
        import numpy as np
    except ImportError:  # pragma: no cover
        np = None
    if isinstance(x, dict):
        return {str(k): jsonable(v) for k, v in x.items()}
    if isinstance(x, (list, tuple, set, frozenset)):
        return [jsonable(v) for v in x]
    if np is not None and isinstance(x, np.ndarray):
        return jsonable(x.tolist())
    if np is not None and isinstance(x, np.generic):
        return jsonable(x.item())
    if isinstance(x, float):
        if math.isnan(x):
            return 'nan'
        if math.isinf(x):
            return 'inf' if x > 0 else '-inf'
        return x
    if isinstance(x, (int, str, bool)) or x is None:
        return x
    if hasattr(x, 'tolist'):
        return jsonable(x.tolist())
    return repr(x)


def unjson(x):
    """Inverse of jsonable for the value forms used in cases."""
    if isinstance(x, dict):
        return {k: unjson(v) for k, v in x.items()}
    if isinstance(x, list):
        return [unjson(v) for v in x]
    if x == 'inf':
        return inf
    if x == '-inf':
        return -inf
    if x == 'nan':
        return float('nan')
    return x


class Acc:
    """Per-shard accumulator; merged in the parent."""

    def __init__(self):
        self.states = 0
        self.transitions = 0
        self.validated = 0
        self.nontrivial = 0
        self.refused = 0
        self.outcomes = set()
        self.viol = []
        self.nviol = 0
        self.samples = []
        self.sub = {}
        self.caps = {}
        self.extra = {}

    def case(self, sub=None, nontrivial=False):
        self.states += 1
        if _CRUMB_FD is not None:
            global _LAST_BEAT
            t = time.monotonic()
            if t - _LAST_BEAT > 1.0:             # heartbeat for the hang watchdog, at most once per second
                _LAST_BEAT = t
                os.pwrite(_CRUMB_FD, b'.', 9000)
        if nontrivial:
            self.nontrivial += 1
        if sub is not None:
            s = self.sub.setdefault(sub, [0, 0])
            s[0] += 1
            if nontrivial:
                s[1] += 1

    def nt(self, sub=None):
        self.nontrivial += 1
        if sub is not None:
            self.sub.setdefault(sub, [0, 0])[1] += 1

    def trans(self, n=1):
        self.transitions += n

    def valid(self, n=1):
        self.validated += n

    def outcome(self, v):
        if len(self.outcomes) < MAXOUT:
            try:
                hash(v)
            except TypeError:
                v = repr(v)
            self.outcomes.add(v)

    def cap(self, name, n=1):
        self.caps[name] = self.caps.get(name, 0) + n

    def count(self, name, n=1):
        self.extra[name] = self.extra.get(name, 0) + n

    def sample(self, case, every=None):
        if len(self.samples) < 3:
            self.samples.append(jsonable(case))

    def violation(self, check, api, engine, tags, case, expected, observed, note=None):
        self.nviol += 1
        if len(self.viol) < MAXV:
            self.viol.append({'check': check, 'api': api, 'engine': engine,
                              'tags': jsonable(tags), 'case': jsonable(case),
                              'expected': jsonable(expected), 'observed': jsonable(observed),
                              'note': note})

    def merge(self, o):
        self.states += o.states
        self.transitions += o.transitions
        self.validated += o.validated
        self.nontrivial += o.nontrivial
        self.refused += o.refused
        self.outcomes |= o.outcomes
        self.nviol += o.nviol
        self.viol.extend(o.viol)
        for s in o.samples:
            if len(self.samples) < 8:
                self.samples.append(s)
        for k, v in o.sub.items():
            s = self.sub.setdefault(k, [0, 0])
            s[0] += v[0]
            s[1] += v[1]
        for k, v in o.caps.items():
            self.caps[k] = self.caps.get(k, 0) + v
        for k, v in o.extra.items():
            if isinstance(v, (int, float)) and (k.startswith('max_') or '_max_' in k):
                self.extra[k] = max(self.extra.get(k, 0), v)
            elif isinstance(v, (int, float)):
                self.extra[k] = self.extra.get(k, 0) + v
            else:
                self.extra[k] = v


def beat():
    """Heartbeat for the hang watchdog (a worker waiting for a long native sub-process is not hung)."""
    if _CRUMB_FD is not None:
        os.pwrite(_CRUMB_FD, b'.', 9000)


def run_beating(cmd, **kw):
    """subprocess.run(cmd, capture) that keeps the watchdog heartbeat alive while the child works."""
    import subprocess
    import tempfile
    with tempfile.TemporaryFile() as fo, tempfile.TemporaryFile() as fe:
        limit = kw.pop('limit', float(os.environ.get('VERIF_DRIVER_LIMIT_S', '5400')))
        p = subprocess.Popen(cmd, stdout=fo, stderr=fe, stdin=subprocess.DEVNULL, **kw)
        t0 = time.time()
        while True:
            try:
                p.wait(timeout=10)
                break
            except subprocess.TimeoutExpired:
                if time.time() - t0 > limit:
                    p.kill()       # a native driver that never finishes is reported by the caller (no STAT/DONE line)
                    p.wait()
                    break
                beat()
        fo.seek(0)
        fe.seek(0)
        out = fo.read().decode(errors='replace')
        err = fe.read().decode(errors='replace')
    return subprocess.CompletedProcess(cmd, p.returncode, out, err)


_LAST_CRUMB = None


def crumb(case):
    """Record the case about to be executed, so that a crash of the worker (native fault) can be attributed."""
    global _LAST_CRUMB
    _LAST_CRUMB = case
    if _CRUMB_FD is not None:
        b = json.dumps(jsonable(case)).encode()[:8000]
        os.pwrite(_CRUMB_FD, len(b).to_bytes(4, 'little') + b, 0)


def _child(fn, my_shards, nshards, extra, wfd, crumb_path):
    """Worker body: runs its shards one after the other, streams (shard, Acc) pickles to the parent."""
    import pickle
    global _CRUMB_FD
    _CRUMB_FD = os.open(crumb_path, os.O_RDWR | os.O_CREAT, 0o600)
    out = os.fdopen(wfd, 'wb')
    for sh in my_shards:
        acc = Acc()
        os.pwrite(_CRUMB_FD, (0).to_bytes(4, 'little'), 0)
        try:
            fn(acc, sh, nshards, *extra)
            if not acc.samples and _LAST_CRUMB is not None and acc.states:
                acc.sample(_LAST_CRUMB)     # a case this shard really executed (evidence wants at least one sample)
        except Exception as e:  # noqa: BLE001
            # The judging code met an implementation result it cannot even inspect (silent on the unchanged tree by
            # construction: the checks are deterministic). That is an observed outcome, reported with the announced case.
            case = None
            try:
                raw = os.pread(_CRUMB_FD, 8200, 0)
                n = int.from_bytes(raw[:4], 'little')
                if n:
                    case = json.loads(raw[4:4 + n].decode())
            except (OSError, ValueError):
                pass
            acc.states = max(acc.states, 1)
            acc.violation('unusable_result', 'judge', 'harness', {'exception': type(e).__name__},
                          case if case is not None else {'shard': sh, 'note': 'no breadcrumb'}, 'a result the check can inspect',
                          '%s: %s | %s' % (type(e).__name__, e, traceback.format_exc()[-1500:]))
            acc.cap('shards_abandoned_after_unusable_result')
        except BaseException as e:  # a failure of the harness itself is an infrastructure error, never silent
            acc.extra['harness_error'] = '%s: %s\n%s' % (type(e).__name__, e, traceback.format_exc()[-3000:])
        b = pickle.dumps((sh, acc))
        out.write(len(b).to_bytes(8, 'little'))
        out.write(b)
        out.flush()
    out.close()
    os._exit(0)


def run_sharded(fn, nshards=None, extra=(), workers=None, crash_tags=None):
    """Run fn(acc, shard, nshards, *extra) for every shard in forked workers and merge the accumulators.

    A worker that dies from a signal (segfault, abort, sanitizer) does not hang the run: the case it had
    announced with core.crumb() is recorded as a violation of kind `crash`, the shard is abandoned and the
    remaining shards of that worker are continued in a fresh process."""
    import pickle
    import select
    import tempfile
    workers = workers or NWORKERS
    nshards = nshards or workers * 4
    total = Acc()
    if workers <= 1:
        for sh in range(nshards):
            acc = Acc()
            try:
                fn(acc, sh, nshards, *extra)
            except BaseException as e:
                acc.extra['harness_error'] = '%s: %s\n%s' % (type(e).__name__, e, traceback.format_exc()[-3000:])
            total.merge(acc)
        return total
    tmpd = tempfile.mkdtemp(prefix='vfcrumb')
    todo = {w: [s for s in range(nshards) if s % workers == w] for w in range(workers)}
    live = {}   # rfd -> dict(pid, w, buf, pending)
    sys.stdout.flush()

    def spawn(w):
        if not todo[w]:
            return
        rfd, wfd = os.pipe()
        cp = os.path.join(tmpd, 'crumb%d' % w)
        pid = os.fork()
        if pid == 0:
            try:
                os.close(rfd)
                _child(fn, list(todo[w]), nshards, extra, wfd, cp)
            finally:
                os._exit(3)
        os.close(wfd)
        live[rfd] = {'pid': pid, 'w': w, 'buf': b'', 'crumb': cp, 'act': time.time(), 'mt': 0}

    for w in range(workers):
        spawn(w)
    crashes = 0
    while live:
        ready, _, _ = select.select(list(live), [], [], 5.0)
        now = time.time()
        for rfd in list(live):
            st = live[rfd]
            if rfd in ready:
                st['act'] = now
                continue
            try:
                mt = os.path.getmtime(st['crumb'])
            except OSError:
                mt = 0
            if mt > st.get('mt', 0):
                st['mt'] = mt
                st['act'] = now
            if now - st.get('act', now) > HANG_S:
                # no result, no breadcrumb, no heartbeat for HANG_S seconds: the case does not terminate
                st['hang'] = True
                try:
                    os.kill(st['pid'], 9)
                except OSError:
                    pass
                st['act'] = now
        for rfd in ready:
            st = live[rfd]
            data = os.read(rfd, 1 << 20)
            if data:
                st['buf'] += data
                while len(st['buf']) >= 8:
                    n = int.from_bytes(st['buf'][:8], 'little')
                    if len(st['buf']) < 8 + n:
                        break
                    sh, acc = pickle.loads(st['buf'][8:8 + n])
                    st['buf'] = st['buf'][8 + n:]
                    todo[st['w']].remove(sh)
                    total.merge(acc)
                continue
            # EOF: worker finished or died
            os.close(rfd)
            del live[rfd]
            _, status = os.waitpid(st['pid'], 0)
            w = st['w']
            if todo[w]:
                crashes += 1
                sh = todo[w].pop(0)
                case = None
                try:
                    with open(st['crumb'], 'rb') as f:
                        raw = f.read()
                    n = int.from_bytes(raw[:4], 'little')
                    if n:
                        case = json.loads(raw[4:4 + n].decode())
                except (OSError, ValueError):
                    pass
                sig = os.WTERMSIG(status) if os.WIFSIGNALED(status) else None
                a = Acc()
                a.states = 1
                if st.get('hang'):
                    a.violation('hang', 'worker', 'harness', dict(crash_tags or {}, kind='no progress for %ds' % HANG_S),
                                case if case is not None else {'shard': sh, 'note': 'no breadcrumb'}, 'termination',
                                'the case did not terminate within %d s (worker killed); rest of shard %d abandoned' % (HANG_S, sh))
                else:
                    a.violation('crash', 'worker', 'native', dict(crash_tags or {}, signal=sig, exit=os.WEXITSTATUS(status) if os.WIFEXITED(status) else None),
                                case if case is not None else {'shard': sh, 'note': 'no breadcrumb'}, 'no crash',
                                'worker process died (signal %s) while executing this case; rest of shard %d abandoned' % (sig, sh))
                a.cap('shards_abandoned_after_crash')
                total.merge(a)
                if crashes <= 64:
                    spawn(w)
                else:
                    todo[w] = []
    try:
        import shutil
        shutil.rmtree(tmpd, ignore_errors=True)
    except OSError:
        pass
    return total


class HarnessError(Exception):
    pass


# ------------------------------------------------------------------ known findings

def load_findings(prop):
    p = os.path.join(VERIF, 'known_findings.json')
    if not os.path.exists(p):
        return []
    with open(p) as f:
        data = json.load(f)
    return [e for e in data.get('findings', []) if e.get('property') == prop]


def _match(entry, v):
    if entry.get('status') != 'open':
        return False
    for k in ('check', 'api', 'engine'):
        want = entry.get(k)
        if want is None:
            continue
        got = v.get(k)
        if isinstance(want, list):
            if got not in want:
                return False
        elif got != want:
            return False
    tags = v.get('tags') or {}
    for k, want in (entry.get('match') or {}).items():
        got = tags.get(k)
        if isinstance(want, list):
            if got not in want:
                return False
        elif got != want:
            return False
    return True


def vclass(v):
    t = v.get('tags') or {}
    return (v['check'], v['api'], v['engine'], tuple(sorted((k, json.dumps(x, sort_keys=True)) for k, x in t.items())))


def finish(prop, tier, seed, acc, rule, bounds, assumptions, t0, extra_cov=None, exhaustive=True):
    """Classify violations, write evidence + replay files, print verdict lines, return exit code."""
    findings = load_findings(prop)
    if 'harness_error' in acc.extra:
        print('HARNESS-ERROR property=%s\n%s' % (prop, acc.extra['harness_error']))
        return 2
    matched = {}
    unlisted = {}
    for v in acc.viol:
        hit = None
        for e in findings:
            if _match(e, v):
                hit = e
                break
        if hit is not None:
            matched.setdefault(hit['id'], [hit, 0, v])
            matched[hit['id']][1] += 1
        else:
            c = vclass(v)
            unlisted.setdefault(c, []).append(v)
    rdir = os.path.join(os.environ.get('VERIF_REPLAY_DIR', os.path.join(VERIF, 'replays')), prop)
    os.makedirs(rdir, exist_ok=True)
    lines = []
    for hid, (e, n, v) in sorted(matched.items()):
        lines.append('KNOWN-FINDING: property=%s %s [%s; %d matching case(s) in this run]' % (prop, e['what'], hid, n))
    nclass = 0
    vio_samples = []
    for c, vs in sorted(unlisted.items(), key=lambda kv: (kv[0][0], kv[0][1], kv[0][2], len(kv[0][3]))):
        nclass += 1
        if nclass > 20:
            continue
        name = '%s_%s_%s_%03d.json' % (c[0], c[1], c[2], nclass)
        name = name.replace('/', '_').replace(' ', '_')
        path = os.path.join(rdir, name)
        with open(path, 'w') as f:
            json.dump({'property': prop, 'class': {'check': c[0], 'api': c[1], 'engine': c[2], 'tags': dict((k, json.loads(x)) for k, x in c[3])},
                       'count_in_run': len(vs), 'first': vs[0], 'more': vs[1:10]}, f, indent=1)
        lines.append('VIOLATION property=%s replay=%s' % (prop, path))
        lines.append('  # %s/%s/%s tags=%s case=%s expected=%s observed=%s' % (
            c[0], c[1], c[2], json.dumps(vs[0]['tags'], sort_keys=True), json.dumps(vs[0]['case']),
            json.dumps(vs[0]['expected']), json.dumps(vs[0]['observed'])))
        vio_samples.append(vs[0])
    cov = {
        'states': acc.states,
        'transitions': acc.transitions,
        'traces_validated_against_impl': acc.validated,
        'evaluations': acc.states,
        'distinct_nontrivial': acc.nontrivial,
        'rule': rule,
        'samples': acc.samples + vio_samples[:5],
        'exhaustive': bool(exhaustive and not acc.caps),
        'bounds': bounds,
        'distinct_outcomes': len(acc.outcomes),
        'refused': acc.refused,
        'caps_hit': acc.caps,
        'sub_universes': {k: {'cases': v[0], 'nontrivial': v[1]} for k, v in sorted(acc.sub.items())},
        'known_findings_matched': {k: v[1] for k, v in matched.items()},
        'violation_classes_unlisted': nclass,
        'violation_records': acc.nviol,
    }
    for k, v in acc.extra.items():
        cov.setdefault(k, jsonable(v))
    if extra_cov:
        cov.update(extra_cov)
    ev = {'property_id': prop, 'tier': tier, 'seed': seed, 'level': 'model_checking',
          'coverage': cov, 'assumptions': assumptions, 'wall_s': round(time.time() - t0, 2),
          'violations': nclass}
    evdir = os.environ.get('VERIF_EVIDENCE_DIR', os.path.join(VERIF, 'evidence'))   # (seeded-change runs write elsewhere)
    os.makedirs(evdir, exist_ok=True)
    tmp = os.path.join(evdir, prop + '.json.tmp')
    with open(tmp, 'w') as f:
        json.dump(ev, f, indent=1, sort_keys=True)
    os.replace(tmp, os.path.join(evdir, prop + '.json'))
    for ln in lines:
        print(ln)
    if unlisted:
        # diagnosis aid: which tag values do the unlisted violation records have in common
        allv = [v for vs in unlisted.values() for v in vs]
        dist = {}
        for v in allv:
            for k, x in (v.get('tags') or {}).items():
                dist.setdefault(k, {}).setdefault(json.dumps(x), 0)
                dist[k][json.dumps(x)] += 1
        print('TAG-SUMMARY (%d unlisted records kept): %s' % (len(allv), json.dumps(dist, sort_keys=True)))
        byapi = {}
        for v in allv:
            k = '%s|%s|%s' % (v['check'], v['api'], v['engine'])
            e = byapi.setdefault(k, [0, v])
            e[0] += 1
        for k, (n, v) in sorted(byapi.items()):
            print('API-SUMMARY %s n=%d first: case=%s expected=%s observed=%s' % (
                k, n, json.dumps(v['case']), json.dumps(v['expected']), json.dumps(v['observed'])))
    print('%s tier=%s seed=%d states=%d transitions=%d validated=%d nontrivial=%d outcomes=%d refused=%d known=%d unlisted_classes=%d wall=%.1fs' % (
        prop, tier, seed, acc.states, acc.transitions, acc.validated, acc.nontrivial, len(acc.outcomes), acc.refused,
        sum(v[1] for v in matched.values()), nclass, time.time() - t0))
    sys.stdout.flush()
    if acc.states == 0:
        print('HARNESS-ERROR property=%s explored nothing' % prop)
        return 2
    return 1 if nclass else 0


# ------------------------------------------------------------------ numeric comparison

def ulp_close(a, b, ulps=4, rel=0.0):
    """a == b up to `ulps` units in the last place (or relative tolerance rel), inf == inf."""
    if a is None or b is None:
        return a is b
    try:
        a = float(a)
        b = float(b)
    except (TypeError, ValueError):
        return False
    if math.isnan(a) or math.isnan(b):
        return False
    if a == b:
        return True
    if math.isinf(a) or math.isinf(b):
        return False
    d = abs(a - b)
    m = max(abs(a), abs(b))
    if d <= ulps * math.ulp(m):
        return True
    return d <= rel * max(1.0, m)


# ------------------------------------------------------------------ calling the implementation

REFUSALS = ('NumpyException', 'CythonException', 'ScipyException', 'PyClusteringException', 'MatplotlibException')


class Exc:
    """An exception observed as the outcome of an implementation call."""

    def __init__(self, e):
        self.type = type(e).__name__
        self.msg = str(e)[:300]
        self.refusal = self.type in REFUSALS or (
            self.type == 'AttributeError' and 'not supported for the fast C implementation' in self.msg) or (
            self.type == 'Exception' and ('Type of series not supported' in self.msg or
                                          'Block cannot have a third argument' in self.msg or
                                          'not yet supported' in self.msg))

    def __repr__(self):
        return 'EXC:%s:%s' % (self.type, self.msg)

    def __eq__(self, o):
        return isinstance(o, Exc) and o.type == self.type

    def __hash__(self):
        return hash(self.type)


def call(fn, *a, **k):
    try:
        return fn(*a, **k)
    except Exception as e:  # noqa: BLE001 - every exception is an observable outcome
        return Exc(e)


def run_child(module, func, env, args):
    """Run vf.props.<module>.<func>(args) in a fresh interpreter with extra environment; returns its Acc."""
    import pickle
    import subprocess
    import tempfile
    fd, path = tempfile.mkstemp(prefix='vfchild', suffix='.pkl')
    os.close(fd)
    try:
        e = dict(os.environ)
        e.update(env)
        e['VERIF_CHILD_OUT'] = path
        e['VERIF_CHILD_ARGS'] = json.dumps(args)
        code = ("import sys, os, json, pickle\n"
                "if os.environ.get('VERIF_BLOCK_NUMPY') == '1':\n"
                "    sys.modules['numpy'] = None\n"
                "sys.path.insert(0, %r)\n"
                "import importlib\n"
                "m = importlib.import_module('vf.props.%s')\n"
                "acc = getattr(m, %r)(json.loads(os.environ['VERIF_CHILD_ARGS']))\n"
                "pickle.dump(acc, open(os.environ['VERIF_CHILD_OUT'], 'wb'))\n") % (VERIF, module, func)
        r = subprocess.run(['/venv/bin/python', '-B', '-c', code], env=e, stdout=subprocess.PIPE,
                           stderr=subprocess.STDOUT, text=True)
        if r.returncode != 0:
            raise HarnessError('child %s.%s failed:\n%s' % (module, func, r.stdout[-4000:]))
        with open(path, 'rb') as f:
            return pickle.load(f)
    finally:
        try:
            os.unlink(path)
        except OSError:
            pass
