"""./check <property> [--tier quick|thorough] [--replay <file>]"""
import argparse
import importlib
import json
import os
import sys
import time

sys.path.insert(0, os.path.dirname(os.path.dirname(os.path.abspath(__file__))))

from vf import build, core  # noqa: E402


class Ctx:
    pass


def main():
    ap = argparse.ArgumentParser()
    ap.add_argument('prop')
    ap.add_argument('--tier', default=os.environ.get('VERIF_TIER', 'quick'), choices=['quick', 'thorough'])
    ap.add_argument('--replay', default=None)
    a = ap.parse_args()
    prop = a.prop.upper()
    ctx = Ctx()
    ctx.prop = prop
    ctx.tier = a.tier
    try:
        ctx.seed = int(os.environ.get('VERIF_SEED', '0'))
    except ValueError:
        ctx.seed = 0
    ctx.t0 = time.time()
    ctx.thorough = a.tier == 'thorough'
    try:
        mod = importlib.import_module('vf.props.' + prop.lower())
    except ImportError as e:
        print('unknown property %s (%s)' % (prop, e))
        return 2
    try:
        if a.replay:
            with open(a.replay) as f:
                rec = json.load(f)
            return mod.replay(ctx, rec)
        return mod.run(ctx)
    except build.BuildError as e:
        print('BUILD-ERROR property=%s\n%s' % (prop, e))
        return 2


if __name__ == '__main__':
    sys.exit(main())
