"""ctypes access to the repository's exported C functions (libdd.so = repo C sources + vshim.c)."""
import ctypes as C

from . import build

idx_t = C.c_ssize_t
seq_t = C.c_double
P = C.POINTER


def build_libdd(asserts=True, omp=True):
    flags = ['gcc', '-O2', '-fPIC', '-shared', '-w']
    if omp:
        flags.append('-fopenmp')
    if not asserts:
        flags.append('-DNDEBUG')
    return build.native('libdd', ['repo:dd_dtw.c', 'repo:dd_ed.c', 'repo:dd_dtw_openmp.c', 'vshim.c'],
                        flags, 'libdd.so', link=['-lm'])


class Lib:
    def __init__(self, path):
        self.path = path
        L = self.L = C.CDLL(path)
        assert L.v_sizeof_idx() == C.sizeof(idx_t) and L.v_sizeof_seq() == C.sizeof(seq_t)
        L.v_settings.restype = C.c_void_p
        L.v_settings.argtypes = [idx_t, seq_t, seq_t, idx_t, seq_t, idx_t, idx_t, idx_t, idx_t, C.c_int, C.c_int, C.c_int]
        L.v_block.restype = C.c_void_p
        L.v_block.argtypes = [idx_t, idx_t, idx_t, idx_t, C.c_int]
        L.v_parts.restype = C.c_void_p
        L.v_parts.argtypes = [idx_t, idx_t, C.c_void_p]
        L.v_parts_field.restype = idx_t
        dp = P(seq_t)
        ip = P(idx_t)
        vp = C.c_void_p
        sig = {
            'dtw_distance': (seq_t, [dp, idx_t, dp, idx_t, vp]),
            'dtw_distance_ndim': (seq_t, [dp, idx_t, dp, idx_t, C.c_int, vp]),
            'dtw_distance_euclidean': (seq_t, [dp, idx_t, dp, idx_t, vp]),
            'dtw_distance_ndim_euclidean': (seq_t, [dp, idx_t, dp, idx_t, C.c_int, vp]),
            'dtw_settings_wps_length': (idx_t, [idx_t, idx_t, vp]),
            'dtw_settings_wps_width': (idx_t, [idx_t, idx_t, vp]),
            'dtw_warping_paths': (seq_t, [dp, dp, idx_t, dp, idx_t, C.c_bool, C.c_bool, C.c_bool, vp]),
            'dtw_warping_paths_ndim': (seq_t, [dp, dp, idx_t, dp, idx_t, C.c_bool, C.c_bool, C.c_bool, C.c_int, vp]),
            'dtw_warping_paths_affinity': (seq_t, [dp, dp, idx_t, dp, idx_t, C.c_bool, C.c_bool, C.c_bool, C.c_bool, seq_t, seq_t, seq_t, seq_t, vp]),
            'dtw_warping_paths_affinity_ndim': (seq_t, [dp, dp, idx_t, dp, idx_t, C.c_bool, C.c_bool, C.c_bool, C.c_bool, C.c_int, seq_t, seq_t, seq_t, seq_t, vp]),
            'dtw_expand_wps': (None, [dp, dp, idx_t, idx_t, vp]),
            'dtw_expand_wps_slice': (None, [dp, dp, idx_t, idx_t, idx_t, idx_t, idx_t, idx_t, vp]),
            'dtw_expand_wps_affinity': (None, [dp, dp, idx_t, idx_t, vp]),
            'dtw_expand_wps_slice_affinity': (None, [dp, dp, idx_t, idx_t, idx_t, idx_t, idx_t, idx_t, vp]),
            'dtw_wps_loc': (idx_t, [vp, idx_t, idx_t, idx_t, idx_t]),
            'dtw_wps_loc_columns': (idx_t, [vp, idx_t, ip, ip, idx_t, idx_t]),
            'dtw_wps_max': (idx_t, [vp, dp, ip, ip, idx_t, idx_t]),
            'dtw_wps_negativize': (None, [vp, dp, idx_t, idx_t, idx_t, idx_t, idx_t, idx_t, C.c_bool]),
            'dtw_wps_positivize': (None, [vp, dp, idx_t, idx_t, idx_t, idx_t, idx_t, idx_t, C.c_bool]),
            'dtw_wps_negativize_value': (C.c_bool, [vp, dp, idx_t, idx_t, idx_t, idx_t]),
            'dtw_wps_positivize_value': (C.c_bool, [vp, dp, idx_t, idx_t, idx_t, idx_t]),
            'dtw_best_path': (idx_t, [dp, ip, ip, idx_t, idx_t, vp]),
            'dtw_best_path_customstart': (idx_t, [dp, ip, ip, idx_t, idx_t, idx_t, idx_t, vp]),
            'dtw_best_path_isclose': (idx_t, [dp, ip, ip, idx_t, idx_t, seq_t, seq_t, vp]),
            'dtw_best_path_affinity': (idx_t, [dp, ip, ip, idx_t, idx_t, idx_t, idx_t, vp]),
            'dtw_warping_path': (seq_t, [dp, idx_t, dp, idx_t, ip, ip, ip, vp]),
            'dtw_warping_path_ndim': (seq_t, [dp, idx_t, dp, idx_t, ip, ip, ip, C.c_int, vp]),
            'ub_euclidean': (seq_t, [dp, idx_t, dp, idx_t]),
            'ub_euclidean_ndim': (seq_t, [dp, idx_t, dp, idx_t, C.c_int]),
            'ub_euclidean_euclidean': (seq_t, [dp, idx_t, dp, idx_t]),
            'ub_euclidean_ndim_euclidean': (seq_t, [dp, idx_t, dp, idx_t, C.c_int]),
            'lb_keogh': (seq_t, [dp, idx_t, dp, idx_t, vp]),
            'lb_keogh_euclidean': (seq_t, [dp, idx_t, dp, idx_t, vp]),
            'euclidean_distance': (seq_t, [dp, idx_t, dp, idx_t]),
            'euclidean_distance_euclidean': (seq_t, [dp, idx_t, dp, idx_t]),
            'euclidean_distance_ndim': (seq_t, [dp, idx_t, dp, idx_t, C.c_int]),
            'euclidean_distance_ndim_euclidean': (seq_t, [dp, idx_t, dp, idx_t, C.c_int]),
            'dtw_distances_length': (idx_t, [vp, idx_t, idx_t]),
            'dtw_distances_ptrs': (idx_t, [P(dp), idx_t, ip, dp, vp, vp]),
            'dtw_distances_ndim_ptrs': (idx_t, [P(dp), idx_t, ip, C.c_int, dp, vp, vp]),
            'dtw_distances_matrix': (idx_t, [dp, idx_t, idx_t, dp, vp, vp]),
            'dtw_distances_ndim_matrix': (idx_t, [dp, idx_t, idx_t, C.c_int, dp, vp, vp]),
            'dtw_distances_matrices': (idx_t, [dp, idx_t, idx_t, dp, idx_t, idx_t, dp, vp, vp]),
            'dtw_distances_ndim_matrices': (idx_t, [dp, idx_t, idx_t, dp, idx_t, idx_t, C.c_int, dp, vp, vp]),
            'dtw_distances_ptrs_parallel': (idx_t, [P(dp), idx_t, ip, dp, vp, vp]),
            'dtw_distances_ndim_ptrs_parallel': (idx_t, [P(dp), idx_t, ip, C.c_int, dp, vp, vp]),
            'dtw_distances_matrix_parallel': (idx_t, [dp, idx_t, idx_t, dp, vp, vp]),
            'dtw_distances_ndim_matrix_parallel': (idx_t, [dp, idx_t, idx_t, C.c_int, dp, vp, vp]),
            'dtw_distances_matrices_parallel': (idx_t, [dp, idx_t, idx_t, dp, idx_t, idx_t, dp, vp, vp]),
            'dtw_distances_ndim_matrices_parallel': (idx_t, [dp, idx_t, idx_t, dp, idx_t, idx_t, C.c_int, dp, vp, vp]),
            'dtw_dba_ptrs': (None, [P(dp), idx_t, ip, dp, idx_t, P(C.c_ubyte), C.c_int, C.c_int, vp]),
            'dtw_dba_matrix': (None, [dp, idx_t, idx_t, dp, idx_t, P(C.c_ubyte), C.c_int, C.c_int, vp]),
        }
        self.missing = []
        for name, (res, args) in sig.items():
            try:
                f = getattr(L, name)
            except AttributeError:
                self.missing.append(name)
                continue
            f.restype = res
            f.argtypes = args
            setattr(self, name, f)

    # ---- helpers
    def settings(self, window=None, max_dist=None, max_step=None, max_length_diff=None, penalty=None, psi=None,
                 use_pruning=False, only_ub=False, inner_dist='squared euclidean'):
        if psi is None:
            p = (0, 0, 0, 0)
        elif isinstance(psi, int):
            p = (psi,) * 4
        else:
            p = tuple(psi)
        inner = 0 if inner_dist in ('squared euclidean', 0, 'sq') else 1
        return self.L.v_settings(window or 0, max_dist or 0.0, max_step or 0.0, max_length_diff or 0, penalty or 0.0,
                                 p[0], p[1], p[2], p[3], 1 if use_pruning else 0, 1 if only_ub else 0, inner)

    def block(self, block=None):
        if block is None:
            return self.L.v_block(0, 0, 0, 0, 1)
        triu = 1
        if len(block) > 2 and block[2] is False:
            triu = 0
        return self.L.v_block(block[0][0], block[0][1], block[1][0], block[1][1], triu)

    def parts(self, l1, l2, s):
        self.L.v_parts(l1, l2, s)
        names = ['width', 'length', 'ri1', 'ri2', 'ri3', 'window', 'ldiff']
        return dict((n, self.L.v_parts_field(i)) for i, n in enumerate(names))

    def parts_ptr(self, l1, l2, s):
        return self.L.v_parts(l1, l2, s)


def darr(seq):
    """Exact-size C double array from a flat Python sequence."""
    seq = list(seq)
    return (seq_t * len(seq))(*seq)


def flat(series):
    """Flatten a series of scalars or of d-vectors row-major."""
    out = []
    for x in series:
        if isinstance(x, (tuple, list)):
            out.extend(x)
        else:
            out.append(x)
    return out
