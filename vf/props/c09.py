"""C09 - LB_Keogh <= DTW <= Euclidean bound; bounds equal in both engines; only_ub returns the Euclidean distance."""
import array

from .. import build, clib, core, oracles, univ
from ..core import inf

PROP = 'C09'
INNERS = {'sq': 'squared euclidean', 'eu': 'euclidean'}
TOL = 1e-12


def le(a, b):
    return a <= b + TOL * max(1.0, abs(b))


class Eng:
    def __init__(self):
        import numpy as np
        from dtaidistance import dtw, dtw_ndim, ed
        self.np, self.dtw, self.dtw_ndim, self.ed = np, dtw, dtw_ndim, ed
        assert dtw.dtw_cc is not None and ed.ed_cc is not None
        self.lib = clib.Lib(clib.build_libdd(asserts=False))


def check_lb(acc, E, s1, s2, w, inner, sign):
    """LB_Keogh(s1,s2,w) <= DTW(s1,s2,w,penalty) for every penalty; Python == C."""
    name = INNERS[inner]
    kw = {'inner_dist': name}
    if w is not None:
        kw['window'] = w
    lb_py = core.call(E.dtw.lb_keogh, list(s1), list(s2), **kw)
    lb_c = core.call(E.dtw.lb_keogh, array.array('d', s1), array.array('d', s2), use_c=True, **kw)
    st = E.lib.settings(window=w, inner_dist=name)
    lb_n = E.lib.lb_keogh(clib.darr(s1), len(s1), clib.darr(s2), len(s2), st)
    acc.trans(3)
    tags = {'bound': 'lb', 'inner': inner, 'sign': sign, 'equal_len': len(s1) == len(s2), 'window_lt_full': bool(w and w < max(len(s1), len(s2)))}
    case = {'s1': s1, 's2': s2, 'window': w, 'inner': inner}
    if isinstance(lb_py, core.Exc):
        acc.violation('lb_call', 'dtw.lb_keogh', 'py', tags, case, 'a number', repr(lb_py))
        return False
    for eng, v in (('c', lb_c), ('native', lb_n)):
        acc.valid()
        if isinstance(v, core.Exc) or not core.ulp_close(v, lb_py, 4):
            acc.violation('lb_c_eq_py', 'dtw.lb_keogh', eng, tags, case, lb_py, repr(v) if isinstance(v, core.Exc) else v)
    ref = oracles.lb_keogh_ref(s1, s2, w, name)
    if not core.ulp_close(ref, lb_py, 4):
        acc.count('lb_differs_from_textbook_envelope_formula')
    for pen in (None, 0.5, 2):
        d = oracles.dtw_ref(s1, s2, window=w, penalty=pen, inner_dist=name)
        acc.valid()
        if not le(lb_py, d):
            acc.violation('lb_le_dtw', 'dtw.lb_keogh', 'py', dict(tags, penalty_on=bool(pen)), dict(case, penalty=pen), '<= %r' % d, lb_py)
        if not isinstance(lb_c, core.Exc) and not le(lb_c, d):
            acc.violation('lb_le_dtw', 'dtw.lb_keogh', 'c', dict(tags, penalty_on=bool(pen)), dict(case, penalty=pen), '<= %r' % d, lb_c)
    acc.outcome(lb_py)
    return lb_py > 0


def check_ub(acc, E, s1, s2, inner, nd, sign):
    """Every way of asking for the Euclidean bound == ed_ref >= DTW without penalty for every window."""
    name = INNERS[inner]
    np = E.np
    ref = oracles.ed_ref(s1, s2, name, ndim=nd > 1)
    tags = {'bound': 'ub', 'inner': inner, 'ndim': nd, 'sign': sign, 'equal_len': len(s1) == len(s2)}
    case = {'s1': s1, 's2': s2, 'inner': inner, 'ndim': nd}
    f1, f2 = clib.darr(clib.flat(s1)), clib.darr(clib.flat(s2))
    res = {}
    if nd == 1:
        l1, l2 = list(s1), list(s2)
        a1, a2 = array.array('d', s1), array.array('d', s2)
        res['py:ed.distance'] = core.call(E.ed.distance, l1, l2, inner_dist=name)
        res['py:dtw.ub_euclidean'] = core.call(E.dtw.ub_euclidean, l1, l2, inner_dist=name)
        res['c:ed.distance_fast'] = core.call(E.ed.distance_fast, a1, a2, inner_dist=name)
        res['py:distance(only_ub)'] = core.call(E.dtw.distance, l1, l2, only_ub=True, inner_dist=name)
        res['c:distance_fast(only_ub)'] = core.call(E.dtw.distance_fast, a1, a2, only_ub=True, inner_dist=name)
        res['c:distance(use_c,only_ub)'] = core.call(E.dtw.distance, a1, a2, only_ub=True, use_c=True, inner_dist=name)
        # the bound does not depend on the other options it is requested with
        res['py:distance(only_ub,use_pruning)'] = core.call(E.dtw.distance, l1, l2, only_ub=True, use_pruning=True, inner_dist=name)
        res['c:distance_fast(only_ub,use_pruning)'] = core.call(E.dtw.distance_fast, a1, a2, only_ub=True, use_pruning=True, inner_dist=name)
        res['py:distance(only_ub,window,penalty)'] = core.call(E.dtw.distance, l1, l2, only_ub=True, window=1, penalty=0.5, inner_dist=name)
        res['c:distance_fast(only_ub,window,penalty)'] = core.call(E.dtw.distance_fast, a1, a2, only_ub=True, window=1, penalty=0.5, inner_dist=name)
        if inner == 'sq':
            res['c:dtw_cc.ub_euclidean'] = core.call(E.dtw.dtw_cc.ub_euclidean, a1, a2)
            res['native:ub_euclidean'] = E.lib.ub_euclidean(f1, len(s1), f2, len(s2))
            res['native:euclidean_distance'] = E.lib.euclidean_distance(f1, len(s1), f2, len(s2))
        else:
            res['native:ub_euclidean_euclidean'] = E.lib.ub_euclidean_euclidean(f1, len(s1), f2, len(s2))
            res['native:euclidean_distance_euclidean'] = E.lib.euclidean_distance_euclidean(f1, len(s1), f2, len(s2))
        st = E.lib.settings(only_ub=True, inner_dist=name)
        res['native:dtw_distance(only_ub)'] = E.lib.dtw_distance(f1, len(s1), f2, len(s2), st)
    else:
        a1, a2 = np.array(s1, dtype=float), np.array(s2, dtype=float)
        res['py:ed.distance(ndim)'] = core.call(E.ed.distance, a1, a2, inner_dist=name, use_ndim=True)
        res['py:dtw_ndim.ub_euclidean'] = core.call(E.dtw_ndim.ub_euclidean, a1, a2, inner_dist=name)
        res['py:dtw_ndim.distance(only_ub)'] = core.call(E.dtw_ndim.distance, a1, a2, only_ub=True, inner_dist=name)
        res['c:dtw_ndim.distance_fast(only_ub)'] = core.call(E.dtw_ndim.distance_fast, a1, a2, only_ub=True, inner_dist=name)
        res['c:dtw_ndim.distance(use_c,only_ub)'] = core.call(E.dtw_ndim.distance, a1, a2, only_ub=True, use_c=True, inner_dist=name)
        res['py:dtw_ndim.distance(only_ub,use_pruning)'] = core.call(E.dtw_ndim.distance, a1, a2, only_ub=True, use_pruning=True, inner_dist=name)
        res['c:dtw_ndim.distance_fast(only_ub,use_pruning)'] = core.call(E.dtw_ndim.distance_fast, a1, a2, only_ub=True, use_pruning=True, inner_dist=name)
        if inner == 'sq':
            res['c:ed_cc.distance_ndim'] = core.call(E.ed.ed_cc.distance_ndim, a1, a2)
            res['c:dtw_cc.ub_euclidean_ndim'] = core.call(E.dtw.dtw_cc.ub_euclidean_ndim, a1, a2)
            res['native:euclidean_distance_ndim'] = E.lib.euclidean_distance_ndim(f1, len(s1), f2, len(s2), nd)
        else:
            res['native:euclidean_distance_ndim_euclidean'] = E.lib.euclidean_distance_ndim_euclidean(f1, len(s1), f2, len(s2), nd)
        st = E.lib.settings(only_ub=True, inner_dist=name)
        res['native:dtw_distance_ndim(only_ub)'] = E.lib.dtw_distance_ndim(f1, len(s1), f2, len(s2), nd, st)
    tol = 1e-12 if (inner == 'eu' and nd > 1) else 0.0
    for k, v in res.items():
        acc.trans()
        acc.valid()
        eng, api = k.split(':', 1)
        if isinstance(v, core.Exc) or not core.ulp_close(float(v), ref, 4, tol):
            acc.violation('ub_value', api, eng, tags, case, ref, repr(v) if isinstance(v, core.Exc) else float(v))
    # ED >= DTW without penalty, every window
    for w in [None] + list(range(1, max(len(s1), len(s2)) + 1)):
        d = oracles.dtw_ref(s1, s2, window=w, inner_dist=name, ndim=nd > 1)
        acc.valid()
        if not le(d, ref):
            acc.violation('dtw_le_ub', 'ed_ref', 'ref', dict(tags, window=w), dict(case, window=w), '>= %r' % d, ref)
    acc.outcome(ref)


def universe(tier, seed, shard, nshards):
    thorough = tier == 'thorough'
    idx = 0
    for sign, base in (('pos', univ.BASE3), ('mixed', univ.BASEPM)):
        A = univ.alphabet(base, seed)
        sers = univ.series(A, 1, 6 if thorough else 5)
        for s1 in sers:
            for s2 in sers:
                if len(s1) + len(s2) > (9 if thorough else 7):
                    continue
                idx += 1
                if idx % nshards != shard:
                    continue
                yield 'U-1d-' + sign, sign, 1, s1, s2
    for nd in (2, 3):
        for sign, base in (('pos', univ.BASE2), ('mixed', (-1.5, 1.0))):
            A = univ.alphabet(base, seed)
            sers = univ.series_nd(A, nd, 1, 3 if (nd == 2) else 2)
            for s1 in sers:
                for s2 in sers:
                    if not thorough and nd == 2 and len(s1) + len(s2) > 5:
                        continue
                    idx += 1
                    if idx % nshards != shard:
                        continue
                    yield 'U-%dd-%s' % (nd, sign), sign, nd, s1, s2


def worker(acc, shard, nshards, tier, seed):
    E = Eng()
    for sub, sign, nd, s1, s2 in universe(tier, seed, shard, nshards):
        nt = len(s1) != len(s2) or nd > 1
        for inner in ('sq', 'eu'):
            check_ub(acc, E, s1, s2, inner, nd, sign)
            if nd == 1:
                for w in [None] + list(range(1, max(len(s1), len(s2)) + 1)):
                    if check_lb(acc, E, s1, s2, w, inner, sign):
                        nt = True
        acc.case(sub, nontrivial=nt)
        if not acc.samples or acc.states % 5003 == 1:
            acc.sample({'s1': s1, 's2': s2, 'ndim': nd})


def run(ctx):
    snap = build.snapshot_ext()
    build.activate(snap)
    clib.build_libdd(asserts=False)
    acc = core.run_sharded(worker, extra=(ctx.tier, ctx.seed))
    return core.finish(
        PROP, ctx.tier, ctx.seed, acc,
        rule='every series pair of the universe x both inner distances x every window; non-trivial = LB > 0, unequal lengths or ndim > 1',
        bounds={'alphabets': {'pos': list(univ.alphabet(univ.BASE3, ctx.seed)), 'mixed': list(univ.alphabet(univ.BASEPM, ctx.seed))},
                '1d': 'all pairs with lengths 1..%s, all windows None,1..max, penalties {None,.5,2} for LB' % ('6 (sum <= 9)' if ctx.thorough else '5 (sum <= 7)'),
                'nd': 'ndim 2 (len <= 3) and 3 (len <= 2) over 2-letter alphabets, positive and mixed sign',
                'routes': 'ed.distance, ed.distance_fast, dtw.ub_euclidean, dtw_ndim.ub_euclidean, ed_cc.distance_ndim, dtw_cc.ub_euclidean(_ndim), distance(only_ub) x {py, fast, use_c, ndim}, exported C functions'},
        assumptions=['DTW values in the inequalities come from the reference model (tied to the implementation by C01/C02/C11)',
                     'LB is only required to be a lower bound equal in both engines; equality with the textbook envelope formula is recorded, not demanded'],
        t0=ctx.t0)


def replay(ctx, rec):
    snap = build.snapshot_ext()
    build.activate(snap)
    v = rec.get('first', rec)
    case = core.unjson(v['case'])
    E = Eng()
    acc = core.Acc()
    nd = case.get('ndim', 1)
    s1 = tuple(tuple(x) if isinstance(x, list) else x for x in case['s1'])
    s2 = tuple(tuple(x) if isinstance(x, list) else x for x in case['s2'])
    check_ub(acc, E, s1, s2, case['inner'], nd, v['tags'].get('sign'))
    if nd == 1:
        for w in [None] + list(range(1, max(len(s1), len(s2)) + 1)):
            check_lb(acc, E, s1, s2, w, case['inner'], v['tags'].get('sign'))
    for x in acc.viol:
        print('  ', x['check'], x['api'], x['engine'], x['case'], 'expected', x['expected'], 'observed', x['observed'])
    if acc.nviol:
        print('VIOLATION property=%s replay=-' % PROP)
        return 1
    print('no violation')
    return 0
