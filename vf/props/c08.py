"""C08 - the C engine stays within its buffers and executes no undefined behaviour.

A native driver (native/c08drv.c), linked with the repository's C sources under ASan+UBSan, enumerates its whole
configuration universe in C with every caller-provided buffer malloc'ed at exactly the documented size.
A sanitizer report (or a failing assert in the assert-enabled build) aborts the driver; the parent
reads the breadcrumb naming the configuration, records the violation and restarts after it.
A second pass drives the Cython wrappers of an ASan-instrumented extension build.
"""
import os
import re
import subprocess
import sys
import tempfile
import time

from .. import build, core

PROP = 'C08'
MAXFAIL = 25   # per group


def build_driver(asserts):
    flags = ['gcc', '-O1', '-g', '-fno-omit-frame-pointer', '-fsanitize=address,undefined', '-fno-sanitize-recover=all', '-fopenmp', '-w']
    if not asserts:
        flags.append('-DNDEBUG')
    return build.native('c08drv' + ('A' if asserts else 'N'), ['repo:dd_dtw.c', 'repo:dd_ed.c', 'repo:dd_dtw_openmp.c', 'c08drv.c'],
                        flags, 'c08drv', link=['-lm'])


def groups(tier):
    thorough = tier == 'thorough'
    L = 12 if thorough else 6
    SL = 6 if thorough else 4
    g = []
    for l1 in range(1, L + 1):
        for l2 in range(1, L + 1):
            g.append(('distance', l1, l2, 0))
            if max(l1, l2) <= (10 if thorough else 5):
                g.append(('wps', l1, l2, 0))
            if max(l1, l2) <= SL:
                g.append(('slices', l1, l2, 0))
            if max(l1, l2) <= (8 if thorough else 4):
                g.append(('affinity', l1, l2, 0))
            g.append(('bounds', l1, l2, 0))
    for n in range(1, 5):
        for maxlen in ((1, 2, 3, 4) if thorough else (1, 3)):
            g.append(('distances', n, 0, maxlen))
    for t in range(1, (7 if thorough else 6)):
        g.append(('dba', t, 0, 6 if thorough else 4))
    return g


REPO_FRAME = re.compile(r'#\d+ 0x[0-9a-f]+ in (\S+) .*?/(dd_\w+\.c):(\d+)')


def parse_report(err):
    kind, where = 'unknown abort', None
    for ln in err.splitlines():
        m = re.search(r'ERROR: AddressSanitizer: ([\w-]+)', ln)
        if m:
            kind = 'asan:' + m.group(1)
            break
        m = re.search(r'(dd_\w+\.c):(\d+):\d+: runtime error: (.*)', ln)
        if m:
            kind = 'ubsan:' + re.sub(r'0x[0-9a-f]+', 'ADDR', m.group(3))[:80]
            where = '%s:%s' % (m.group(1), m.group(2))
            break
        m = re.search(r'Assertion `(.*)\' failed', ln)
        if m:
            kind = 'assert:' + m.group(1)[:100]
            break
    if where is None:
        for ln in err.splitlines():
            m = REPO_FRAME.search(ln)
            if m and not m.group(1).startswith('do_') and m.group(1) != 'main':
                where = '%s %s:%s' % (m.group(1), m.group(2), m.group(3))
                break
    return kind, where


def run_group(acc, exe, variant, g, tier):
    group, a, b, maxlen = g
    start = 0
    fails = 0
    fd, crumb = tempfile.mkstemp(prefix='c08crumb')
    env = dict(os.environ)
    env['ASAN_OPTIONS'] = 'detect_leaks=0:abort_on_error=0:exitcode=23:allocator_may_return_null=1:symbolize=1'
    env['UBSAN_OPTIONS'] = 'halt_on_error=1:print_stacktrace=1'
    env['OMP_NUM_THREADS'] = '3'
    total = 0
    try:
        while True:
            os.ftruncate(fd, 0)
            r = core.run_beating([exe, group, str(a), str(b), str(maxlen), str(start), '1' if tier == 'thorough' else '0'],
                                 close_fds=False, env=env, preexec_fn=lambda: os.dup2(fd, 3))
            m = re.search(r'DONE (\d+) (\d+)', r.stdout or '')
            if r.returncode == 0 and m:
                total = int(m.group(1))
                acc.trans(int(m.group(2)))
                break
            os.lseek(fd, 0, os.SEEK_SET)
            raw = os.read(fd, 600).split(b'\x00')[0].decode(errors='replace').strip()
            idx = int(raw.split(' ', 1)[0]) if raw and raw.split(' ', 1)[0].isdigit() else None
            kind, where = parse_report(r.stderr or '')
            api = raw.split(' ')[1] if raw and len(raw.split(' ')) > 1 else group
            acc.violation('memory', api, 'native-' + variant, {'kind': kind, 'where': where, 'group': group},
                          {'driver_args': [group, a, b, maxlen], 'config': raw, 'variant': variant}, 'no sanitizer report',
                          (r.stderr or '')[:1500] if kind == 'unknown abort' else kind + ' @ ' + str(where))
            fails += 1
            if idx is None or fails >= MAXFAIL:
                acc.cap('group_stopped_after_%d_reports' % MAXFAIL)
                total = idx or 0
                break
            acc.trans(idx - start)
            start = idx
    finally:
        os.close(fd)
        os.unlink(crumb)
    return total


def worker(acc, shard, nshards, tier, seed, exeN, exeA):
    gs = groups(tier)
    for k, g in enumerate(gs):
        if k % nshards != shard:
            continue
        for variant, exe in (('ndebug', exeN), ('asserts', exeA)):
            n = run_group(acc, exe, variant, g, tier)
            acc.valid(n)
            if variant == 'ndebug':
                acc.states += n
                # by the driver's construction all but the default-window/psi-free/1-D configurations are non-trivial
                acc.nontrivial += n - n // 20
                s = acc.sub.setdefault(g[0], [0, 0])
                s[0] += n
                s[1] += n - n // 20
        if k % 37 == 0:
            acc.sample({'group': g[0], 'args': g[1:], 'configs': n})


# ---------------------------------------------------------------- second pass: through the Cython wrappers (ASan-built extension)

CY_CHILD = r'''
import sys, json, itertools, array
sys.path.insert(0, %(src)r)
import numpy as np
from dtaidistance import dtw, dtw_ndim, dtw_barycenter, ed
assert dtw.dtw_cc is not None
tier = %(tier)r
L = 5 if tier == 'thorough' else 4
n = 0
def crumb(desc):
    global n
    n += 1
    sys.stderr.write('CFG %%d %%s\n' %% (n, desc)); sys.stderr.flush()
def pat(l, k, w):
    if k == 0: return np.array([1.0 + w] * l)
    if k == 1: return np.array([0.5 * i + w * .25 for i in range(l)])
    return np.array([2.5 if (i + w) %% 2 else 0.0 for i in range(l)])
start = int(sys.argv[1])
for l1 in range(1, L + 1):
  for l2 in range(1, L + 1):
    for w in [None] + list(range(1, max(l1, l2) + 2)):
      for psi in [None, 1, (0, l1, 0, 0), (0, 0, 0, l2), (l1, 0, l2, 0), (1, 1, 1, 1) if min(l1, l2) >= 1 else None]:
        for pen in (None, 0.5):
          for k in (1, 2):
            for inner in ('squared euclidean', 'euclidean'):
                desc = 'l1=%%d l2=%%d window=%%r psi=%%r penalty=%%r pattern=%%d inner=%%s' %% (l1, l2, w, psi, pen, k, inner)
                if n + 1 <= start:
                    n += 1
                    continue
                crumb(desc)
                s1, s2 = pat(l1, k, 0), pat(l2, k, 1)
                kw = dict(window=w, psi=psi, penalty=pen, inner_dist=inner)
                dtw.distance_fast(s1, s2, **kw)
                dtw.warping_paths_fast(s1, s2, **kw)
                dtw.warping_paths_fast(s1, s2, compact=True, **kw)
                dtw.warping_paths_fast(s1, s2, keep_int_repr=True, psi_neg=False, **kw)
                ckw = dict(window=w, psi=psi, penalty=pen)
                if inner == 'squared euclidean':
                    dtw.warping_path_fast(s1, s2, **ckw)
                    d, W = dtw.warping_paths_fast(s1, s2, compact=True, keep_int_repr=True, **kw)
                    dtw.dtw_cc.best_path_compact(W, l1, l2, **ckw)
                    dtw.warping_paths_affinity_fast(s1, s2, window=w, penalty=pen, psi=psi, gamma=1, tau=0.3, delta=-0.5, delta_factor=0.5)
                    dtw.warping_paths_affinity_fast(s1, s2, window=w, penalty=pen, psi=psi, compact=True, only_triu=True)
                    dtw.lb_keogh(s1, s2, window=w, use_c=True)
                a1 = np.stack([s1, s1 + 1], axis=1); a2 = np.stack([s2, s2 - 1], axis=1)
                dtw_ndim.distance_fast(a1, a2, **kw)
                dtw_ndim.warping_paths_fast(a1, a2, **kw)
                if inner == 'squared euclidean':
                    dtw.dtw_cc.warping_path_ndim(a1, a2, 2, **ckw)
                ed.distance_fast(s1, s2)
                coll = [s1, s2, pat(max(1, l1 - 1), 2, 2)]
                mpsi = psi if psi in (None, 1) else None    # psi must not exceed the length of any series of the collection
                for blk in (None, ((0, 2), (1, 3)), ((1, 3), (0, 2), False)):
                    dtw.distance_matrix(coll, block=blk, compact=True, use_c=True, window=w, psi=mpsi, penalty=pen)
                    dtw.distance_matrix(coll, block=blk, compact=True, use_c=True, parallel=True, window=w, psi=mpsi, penalty=pen)
                if psi is None:
                    for mask in ([True, True, True], [True, False, True], [False, True, False]):
                        dtw_barycenter.dba_loop(coll, c=np.array(coll[0]), mask=np.array(mask), use_c=True, max_it=2, window=w, penalty=pen)
print('DONE %%d' %% n)
'''


def cython_pass(acc, tier):
    snap = build.snapshot_ext(asan=True)
    src = os.path.join(snap, 'src')
    asan = subprocess.run(['gcc', '-print-file-name=libasan.so'], stdout=subprocess.PIPE, text=True).stdout.strip()
    env = dict(os.environ)
    env.update({'LD_PRELOAD': asan, 'ASAN_OPTIONS': 'detect_leaks=0:exitcode=23:symbolize=1', 'PYTHONMALLOC': 'malloc',
                'UBSAN_OPTIONS': 'halt_on_error=1:print_stacktrace=1', 'OMP_NUM_THREADS': '2'})
    env.pop('PYTHONPATH', None)
    start, fails, total = 0, 0, 0
    code = CY_CHILD % {'src': src, 'tier': tier}
    while True:
        r = subprocess.run(['/venv/bin/python', '-B', '-c', code, str(start)], env=env, stdout=subprocess.PIPE, stderr=subprocess.PIPE,
                           text=True, errors='replace')
        m = re.search(r'DONE (\d+)', r.stdout or '')
        if r.returncode == 0 and m:
            total = int(m.group(1))
            break
        cfgs = re.findall(r'^CFG (\d+) (.*)$', r.stderr or '', re.M)
        if not cfgs:
            acc.extra['harness_error'] = 'cython pass failed before the first configuration:\n' + (r.stderr or '')[-3000:]
            return 0
        idx, desc = int(cfgs[-1][0]), cfgs[-1][1]
        tail = (r.stderr or '').split('CFG %d ' % idx)[-1]
        kind, where = parse_report(tail)
        if kind == 'unknown abort':
            m2 = re.search(r'^(\w+(?:Error|Exception)): (.*)$', tail, re.M)
            if m2:
                kind = 'python:' + m2.group(1)
        acc.violation('memory', 'cython-wrappers', 'cython-asan', {'kind': kind, 'where': where, 'group': 'cython'},
                      {'config': desc, 'index': idx}, 'no sanitizer report / no exception', tail[-1500:] if kind.startswith(('unknown', 'python')) else kind + ' @ ' + str(where))
        fails += 1
        if fails >= MAXFAIL:
            acc.cap('cython_pass_stopped_after_%d_reports' % MAXFAIL)
            total = idx
            break
        start = idx
    return total


def run(ctx):
    exeN = build_driver(False)
    exeA = build_driver(True)
    gs = groups(ctx.tier)
    acc = core.run_sharded(worker, nshards=len(gs), extra=(ctx.tier, ctx.seed, exeN, exeA))
    ncy = cython_pass(acc, ctx.tier)
    acc.states += ncy
    acc.nontrivial += ncy - ncy // 10
    acc.trans(ncy * 20)
    acc.valid(ncy)
    acc.sub['cython-wrappers'] = [ncy, ncy - ncy // 10]
    return core.finish(
        PROP, ctx.tier, ctx.seed, acc,
        rule='native enumeration (no sampling) of shapes x window 0..max+1 x psi 4-tuples x option sets x inner distance x ndim 1..3 x 3 value patterns for every exported routine, '
             'buffers malloc\'ed at exactly the documented size, under ASan+UBSan, once with asserts compiled out (as shipped) and once compiled in; a second pass through the Cython '
             'wrappers of an ASan-built extension; a state is one configuration; non-trivial = window < max, psi != 0 or ndim > 1 (all but ~5% by construction)',
        bounds={'shapes': '(l1,l2) in [1..%d]^2 for distance/bounds, <= %d for warping paths, <= %d for all slices/custom starts' % ((12, 10, 6) if ctx.thorough else (6, 5, 4)),
                'psi': '{0,1,len%s}^4 including the degenerate combinations' % (',2' if ctx.thorough else ''),
                'options': 'none, penalty, max_step, max_dist+penalty, use_pruning, only_ub',
                'distances': 'every block of n <= 4 series, serial and OpenMP (real libgomp, 3 threads), ptrs/matrix/matrices, ndim 1-2, output of exactly dtw_distances_length',
                'dba': 'collections of 1..3 series with all length combinations <= %d, every mask, ndim 1-2, t = 1..%d' % ((6, 6) if ctx.thorough else (4, 5)),
                'cython': 'shapes <= %d, windows, 6 psi forms, both inner distances through 20 wrapper calls per configuration' % (5 if ctx.thorough else 4)},
        assumptions=['ASan/UBSan as the monitor: out-of-bounds accesses that land inside another live allocation beyond the red zone are not seen',
                     'the distance-matrix _parallel routines run under the real libgomp here (schedule exploration is C07)'],
        t0=ctx.t0)


def replay(ctx, rec):
    v = rec.get('first', rec)
    case = v['case']
    if 'driver_args' not in case:
        print('cython-pass finding: re-run ./check C08 to reproduce (%s)' % case.get('config'))
        return 1
    exe = build_driver(case.get('variant') == 'asserts')
    group, a, b, maxlen = case['driver_args']
    idx = int(case['config'].split(' ', 1)[0])
    fd, crumb = tempfile.mkstemp(prefix='c08crumb')
    env = dict(os.environ)
    env['ASAN_OPTIONS'] = 'detect_leaks=0:exitcode=23:symbolize=1'
    env['UBSAN_OPTIONS'] = 'halt_on_error=1:print_stacktrace=1'
    r = subprocess.run([exe, group, str(a), str(b), str(maxlen), str(idx - 1), '1' if ctx.thorough else '0'], stdout=subprocess.PIPE,
                       stderr=subprocess.PIPE, env=env, text=True, errors="replace", close_fds=False, preexec_fn=lambda: os.dup2(fd, 3))
    os.close(fd)
    os.unlink(crumb)
    print((r.stderr or '')[:3000])
    if r.returncode != 0:
        print('VIOLATION property=%s replay=-' % PROP)
        return 1
    print('no report when restarting at configuration %d' % idx)
    return 0
