"""C14 - k-NN subsequence search is exact despite lower bounds and early abandoning; history independent."""
import itertools

from .. import build, core, oracles, univ
from ..core import inf

PROP = 'C14'


def close(a, b):
    return core.ulp_close(float(a), float(b), 4, 1e-12)


class Eng:
    def __init__(self):
        import numpy as np
        from dtaidistance.subsequence.subsequencesearch import subsequence_search
        from dtaidistance import dtw
        self.np, self.search = np, subsequence_search
        assert dtw.dtw_cc is not None

    def make(self, query, cands, opts, use_lb, max_dist, max_value, use_c, nd):
        np = self.np
        q = np.array(query, dtype=float)
        s = [np.array(c, dtype=float) for c in cands]
        return self.search(q, s, dists_options=dict(opts), use_lb=use_lb, max_dist=max_dist, max_value=max_value, use_c=use_c)


def ref_dists(query, cands, opts, nd):
    return [oracles.dtw_ref(query, c, window=opts.get('window'), penalty=opts.get('penalty'), psi=opts.get('psi'), ndim=nd > 1) for c in cands]


def expected(D, limit):
    E = sorted((d, i) for i, d in enumerate(D) if d <= limit)
    return E


def observe(matches):
    return [(float(m.distance), int(m.idx)) for m in matches]


def judge(obs, D, limit, k):
    """None if obs is the exact k-NN answer (indices up to ties), else a reason."""
    E = expected(D, limit)
    if k is None:
        fin = [(d, i) for d, i in obs if d != inf]
        rest = [(d, i) for d, i in obs if d == inf]
        if len(obs) != len(D):
            return 'k=None must report every candidate: %d of %d' % (len(obs), len(D))
        if any(d != inf for d, i in obs[len(fin):]):
            return 'finite distances after an infinite one'
        want = E
        got = fin
    else:
        want = E[:k]
        got = obs
        if len(got) != len(want):
            return 'returned %d matches, expected min(k, #within max_dist) = %d' % (len(got), len(want))
    if len(got) != len(want):
        return 'finite part has %d entries, expected %d' % (len(got), len(want))
    for (gd, gi), (wd, wi) in zip(got, want):
        if not close(gd, wd):
            return 'distances %r differ from the exhaustive answer %r' % ([x[0] for x in got], [x[0] for x in want])
        if not (0 <= gi < len(D)) or not close(D[gi], gd):
            return 'index %d does not have the reported distance %r (its distance is %r)' % (gi, gd, D[gi] if 0 <= gi < len(D) else None)
    idxs = [i for d, i in obs]
    if len(set(idxs)) != len(idxs):
        return 'an index is reported twice: %r' % (idxs,)
    return None


def limits(D):
    """max_dist choices: None, between best and 2nd best, a middle gap, above all."""
    vals = sorted(set(d for d in D if d < inf))
    out = [None]
    gaps = [(a + b) / 2.0 for a, b in zip(vals, vals[1:]) if b - a > 1e-6]
    if gaps:
        out.append(gaps[0])
        if len(gaps) > 1:
            out.append(gaps[len(gaps) // 2])
    if vals:
        out.append(vals[-1] + 0.75)
        if vals[0] > 1e-3:
            out.append(vals[0] / 2.0)
    return out


def exact_limits(D):
    """Thresholds EQUAL to a candidate's distance, only where the comparison is exact in any reasonable implementation:
    the distance is a small dyadic rational d, so d*d is exactly the accumulated cost (all costs are dyadic) and
    'distance <= max_dist' holds without rounding in either representation.  dtw.distance(max_dist=d) returns d there."""
    vals = sorted(set(d for d in D if d < inf and d > 0 and float(d * 64).is_integer()))
    return vals[:2]


def check_search(acc, E, query, cands, opts, nd, hist_too=False):
    D = ref_dists(query, cands, opts, nd)
    N = len(cands)
    nontrivial = False
    for md, exact in [(m, False) for m in limits(D)] + [(m, True) for m in exact_limits(D)]:
        limit = inf if md is None else md
        for as_value in ((False, True) if (md is not None and not exact) else (False,)):
            for use_lb in (True, False):
                for use_c in (False, True):
                    for k in list(range(1, N + 2)) + [None]:
                        kw = dict(max_dist=None if as_value else md, max_value=(md / len(query)) if as_value else None)
                        ss = core.call(E.make, query, cands, opts, use_lb, kw['max_dist'], kw['max_value'], use_c, nd)
                        obs = ss if isinstance(ss, core.Exc) else core.call(lambda: observe(ss.kbest_matches(k=k)))
                        acc.trans()
                        acc.valid()
                        why = repr(obs) if isinstance(obs, core.Exc) else judge(obs, D, limit, k)
                        if why:
                            acc.violation('knn', 'kbest_matches', 'c' if use_c else 'py',
                                          {'what': 'knn', 'ndim': nd, 'use_lb': use_lb, 'k_none': k is None, 'max_dist_on': md is not None, 'threshold_equals_a_distance': exact, 'psi_on': bool(opts.get('psi')),
                                           'window_on': bool(opts.get('window')), 'ties': len(set(D)) < len(D)},
                                          {'query': query, 'candidates': cands, 'options': opts, 'ndim': nd, 'use_lb': use_lb, 'use_c': use_c, 'k': k, 'max_dist': kw['max_dist'], 'max_value': kw['max_value']},
                                          {'reference_distances': D}, {'observed': None if isinstance(obs, core.Exc) else obs, 'why': why})
                        if md is not None and any(d > limit for d in D):
                            nontrivial = True
                        if k is not None and k < N:
                            nontrivial = True
    # both thresholds at once: the tighter of max_dist and max_value * len(query) decides, whichever way they are ordered
    gaps = [m for m in limits(D) if m is not None]
    for m_lo, m_hi in [(a, b) for a in gaps for b in gaps if a < b][:3]:
        for md, mv in ((m_hi, m_lo / len(query)), (m_lo, m_hi / len(query))):
            limit = min(md, mv * len(query))
            if any(abs(d - limit) < 1e-9 for d in D if d < inf):
                continue
            for use_lb in (True, False):
                for use_c in (False, True):
                    for k in (1, N, None):
                        ss = core.call(E.make, query, cands, opts, use_lb, md, mv, use_c, nd)
                        obs = ss if isinstance(ss, core.Exc) else core.call(lambda: observe(ss.kbest_matches(k=k)))
                        acc.trans()
                        acc.valid()
                        why = repr(obs) if isinstance(obs, core.Exc) else judge(obs, D, limit, k)
                        if why:
                            acc.violation('knn', 'kbest_matches', 'c' if use_c else 'py',
                                          {'what': 'knn', 'ndim': nd, 'use_lb': use_lb, 'k_none': k is None, 'max_dist_on': True, 'both_thresholds': True, 'psi_on': bool(opts.get('psi')),
                                           'window_on': bool(opts.get('window')), 'ties': len(set(D)) < len(D)},
                                          {'query': query, 'candidates': cands, 'options': opts, 'ndim': nd, 'use_lb': use_lb, 'use_c': use_c, 'k': k, 'max_dist': md, 'max_value': mv},
                                          {'reference_distances': D}, {'observed': None if isinstance(obs, core.Exc) else obs, 'why': why})
    return D, nontrivial


# ---------------------------------------------------------------- histories

HOPS = ('K1', 'K2', 'K3', 'KN', 'B', 'A2', 'F2', 'R')


def do_op(ss, op):
    if op == 'R':
        ss.reset()
        return 'ok'
    if op == 'B':
        m = ss.best_match()
        return [(float(m.distance), int(m.idx))]
    if op == 'A2':
        return [(float(d), int(i)) for d, i in ss.align(k=2)]
    if op == 'F2':
        return observe(ss.kbest_matches_fast(k=2))
    k = {'K1': 1, 'K2': 2, 'K3': 3, 'KN': None}[op]
    return observe(ss.kbest_matches(k=k))


def check_histories(acc, E, query, cands, opts, md, use_lb, use_c, depth):
    D = ref_dists(query, cands, opts, 1)
    limit = inf if md is None else md
    kof = {'K1': 1, 'K2': 2, 'K3': 3, 'KN': None, 'B': 1, 'A2': 2, 'F2': 2}
    frontier = [()]
    for d in range(depth):
        nxt = []
        for h in frontier:
            for op in HOPS:
                hist = h + (op,)
                ss = E.make(query, cands, opts, use_lb, md, None, use_c, 1)
                bad = None
                for o in hist:
                    obs = core.call(do_op, ss, o)
                    acc.trans()
                    if o == 'R':
                        continue
                    if isinstance(obs, core.Exc):
                        bad = '%s raised %r' % (o, obs)
                        break
                    why = judge(obs, D, limit, kof[o])
                    if why:
                        bad = '%s after %r: %s (observed %r)' % (o, list(hist[:hist.index(o)]) if False else list(hist), why, obs)
                        break
                acc.valid()
                acc.case('histories', nontrivial=len(hist) >= 2)
                if bad:
                    acc.violation('history', 'SubsequenceSearch', 'c' if use_c else 'py', {'what': 'history', 'use_lb': use_lb, 'max_dist_on': md is not None, 'last_op': hist[-1], 'depth': len(hist)},
                                  {'query': query, 'candidates': cands, 'options': opts, 'max_dist': md, 'use_lb': use_lb, 'use_c': use_c, 'history': list(hist)},
                                  {'reference_distances': D}, bad)
                nxt.append(hist)
        frontier = nxt


def pools(seed):
    A = univ.alphabet(univ.BASE3, seed)
    a0, a1, a2 = A
    q1 = (a0, a1, a2)
    # lengths differ from the query by 0, 1 and 2 (a candidate may be shorter or longer than the query by more than the window)
    pool1 = [(a0, a1, a2), (a0, a1, a1), (a0, a0, a2), (a1,), (a1, a1, a2, a2), (a0, a2)]
    q2 = (a1, a0)
    pool2 = [(a1, a0), (a1, a1), (a0, a0, a0), (a2, a0, a1, a1), (a1,)]
    return [(q1, pool1), (q2, pool2)]


def universe(tier, seed, shard, nshards):
    thorough = tier == 'thorough'
    idx = 0
    for query, pool in pools(seed):
        for N in range(1, (5 if thorough else 4) + 1):
            for cands in itertools.product(pool, repeat=N):
                if N >= 4 and not thorough and len(set(cands)) < 3:
                    continue
                idx += 1
                if idx % nshards != shard:
                    continue
                for w in (None, 1, 2):
                    for pen in (None, 0.5):
                        for psi in (None, 1):
                            if N >= 4 and (w == 2 or psi):
                                continue
                            opts = {}
                            if w:
                                opts['window'] = w
                            if pen:
                                opts['penalty'] = pen
                            if psi:
                                opts['psi'] = psi
                            yield 'U1-lists', 1, query, cands, opts
    A2 = univ.alphabet(univ.BASE2, seed)
    b0, b1 = A2
    q = ((b0, b1), (b1, b1))
    pool = [((b0, b1), (b1, b1)), ((b0, b0),), ((b1, b0), (b0, b1), (b1, b1)), ((b0, b1), (b0, b1))]
    for N in (1, 2, 3):
        for cands in itertools.product(pool, repeat=N):
            idx += 1
            if idx % nshards != shard:
                continue
            for w in (None, 1):
                yield 'U2-ndim', 2, q, cands, ({'window': w} if w else {})


def hist_universe2(tier, seed, shard, nshards):
    """Depth-2 histories on EVERY candidate list of length 3 (4 in thorough) over the pools, in every order."""
    idx = 0
    for query, pool in pools(seed):
        for N in ((3, 4) if tier == 'thorough' else (3,)):
            for cands in itertools.product(pool, repeat=N):
                idx += 1
                if idx % nshards != shard:
                    continue
                D = ref_dists(query, cands, {}, 1)
                for md in limits(D)[:2]:
                    for use_c in (False, True):
                        yield query, cands, {}, md, True, use_c
                yield query, cands, {'window': 1}, None, True, False


def hist_universe(tier, seed, shard, nshards):
    idx = 0
    for query, pool in pools(seed):
        for cands in ((pool[0], pool[1], pool[2], pool[3]), (pool[1], pool[1], pool[0]), (pool[3], pool[2], pool[4], pool[0], pool[1])):
            D = ref_dists(query, cands, {}, 1)
            for md in limits(D)[:3]:
                for use_lb in (True, False):
                    for use_c in (False, True):
                        idx += 1
                        if idx % nshards != shard:
                            continue
                        yield query, cands, {}, md, use_lb, use_c


def worker(acc, shard, nshards, tier, seed):
    E = Eng()
    for sub, nd, query, cands, opts in universe(tier, seed, shard, nshards):
        D, nt = check_search(acc, E, query, cands, opts, nd)
        acc.case(sub, nontrivial=nt)
        acc.outcome(tuple(round(d, 9) for d in sorted(D)[:3]))
        if not acc.samples or acc.states % 499 == 1:
            acc.sample({'query': query, 'candidates': cands, 'options': opts})
    depth = 4 if tier == 'thorough' else 3
    for query, cands, opts, md, use_lb, use_c in hist_universe(tier, seed, shard, nshards):
        check_histories(acc, E, query, cands, opts, md, use_lb, use_c, depth)
    for query, cands, opts, md, use_lb, use_c in hist_universe2(tier, seed, shard, nshards):
        check_histories(acc, E, query, cands, opts, md, use_lb, use_c, 2)


def run(ctx):
    snap = build.snapshot_ext()
    build.activate(snap)
    acc = core.run_sharded(worker, extra=(ctx.tier, ctx.seed))
    return core.finish(
        PROP, ctx.tier, ctx.seed, acc,
        rule='E1: every candidate list of 1..%d series drawn with repetition (hence in every order) from pools built to create ties and duplicates x window x penalty x psi x every max_dist/max_value '
             'threshold class x use_lb x engine x every k in 1..N+1 and None; E2: every history up to depth %d over {kbest_matches(1|2|3|None), best_match, align(2), kbest_matches_fast(2), reset} on 3 candidate lists, and every depth-2 history on EVERY ordered candidate list of length 3 over the pools (use_lb on); '
             'non-trivial = a threshold excludes a candidate or k < N / history length >= 2' % (5 if ctx.thorough else 4, 4 if ctx.thorough else 3),
        bounds={'pools': '2 univariate pools (6 and 5 series, lengths 1..4, differing from the query length by up to 2) and one 2-dimensional pool', 'thresholds': 'None, between best and 2nd best, a middle gap, above all, below all; as max_dist and as max_value; equal to the smallest two exactly representable distances (max_dist only); max_dist and max_value together, either one the tighter'},
        assumptions=['reference = sorted exhaustive reference DTW distances; indices are compared up to ties (a reported index must have the reported distance)',
                     'thresholds are placed in gaps between distinct distances, or exactly ON a distance where that distance is a small dyadic rational (its square is exactly the accumulated cost, so <= is decided without rounding); never within rounding distance otherwise'],
        t0=ctx.t0)


def replay(ctx, rec):
    snap = build.snapshot_ext()
    build.activate(snap)
    v = rec.get('first', rec)
    c = core.unjson(v['case'])
    tup = lambda s: tuple(tuple(p) if isinstance(p, list) else p for p in s)
    E = Eng()
    acc = core.Acc()
    q = tup(c['query'])
    cands = tuple(tup(x) for x in c['candidates'])
    opts = c.get('options') or {}
    if 'history' in c:
        check_histories(acc, E, q, cands, opts, c.get('max_dist'), c['use_lb'], c['use_c'], len(c['history']))
    else:
        check_search(acc, E, q, cands, opts, c.get('ndim', 1))
    for x in acc.viol[:6]:
        print('  ', x['check'], x['engine'], {k: x['case'].get(k) for k in ('k', 'max_dist', 'max_value', 'use_lb', 'history')}, 'observed', x['observed'])
    if acc.nviol:
        print('VIOLATION property=%s replay=-' % PROP)
        return 1
    print('no violation')
    return 0
