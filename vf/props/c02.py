"""C02 - the C engine returns the same distances as the Python engine (differential, 4 C routes)."""
import array
import itertools

from .. import build, clib, core, oracles, univ
from ..core import inf

PROP = 'C02'
INNERS = {'sq': 'squared euclidean', 'eu': 'euclidean'}
THRESH = (0.9, 1.6, 2.2, 3.1)   # never within rounding distance of an attainable value on the dyadic alphabets


def kw_of(case):
    kw = {}
    for k in ('window', 'penalty', 'psi', 'max_step', 'max_length_diff', 'max_dist', 'use_pruning'):
        if k in case:
            v = case[k]
            if k == 'psi' and isinstance(v, list):
                v = tuple(v)
            kw[k] = v
    kw['inner_dist'] = INNERS[case.get('inner', 'sq')]
    return kw


def tags_of(case, route):
    kw = kw_of(case)
    psi = oracles.norm_psi(kw.get('psi') or None)
    r, c = len(case['s1']), len(case['s2'])
    w = kw.get('window')
    return {'route': route, 'inner': case.get('inner', 'sq'), 'ndim': case.get('ndim', 1),
            'window_lt_full': bool(w and w < max(r, c)), 'penalty_on': bool(kw.get('penalty')),
            'psi_begin': bool(psi[0] or psi[2]), 'psi_end': bool(psi[1] or psi[3]),
            'max_step_on': bool(kw.get('max_step')), 'max_dist_on': bool(kw.get('max_dist')),
            'pruning': bool(kw.get('use_pruning')), 'only_ub': bool(case.get('only_ub')),
            'mld_on': bool(kw.get('max_length_diff'))}


class Engines:
    def __init__(self):
        import numpy as np
        from dtaidistance import dtw, dtw_ndim
        self.np, self.dtw, self.dtw_ndim = np, dtw, dtw_ndim
        assert dtw.dtw_cc is not None, 'C extension missing in snapshot'
        self.lib = clib.Lib(clib.build_libdd(asserts=False))

    def py(self, case):
        kw = kw_of(case)
        if case.get('ndim', 1) == 1:
            return core.call(self.dtw.distance, list(case['s1']), list(case['s2']), only_ub=bool(case.get('only_ub')), **kw)
        a1 = self.np.array(case['s1'], dtype=float)
        a2 = self.np.array(case['s2'], dtype=float)
        return core.call(self.dtw_ndim.distance, a1, a2, only_ub=bool(case.get('only_ub')), **kw)

    def routes(self, case, which):
        kw = kw_of(case)
        ub = bool(case.get('only_ub'))
        nd = case.get('ndim', 1)
        out = {}
        if nd == 1:
            a1 = array.array('d', case['s1'])
            a2 = array.array('d', case['s2'])
        else:
            a1 = self.np.array(case['s1'], dtype=float)
            a2 = self.np.array(case['s2'], dtype=float)
        if 'fast' in which:
            f = self.dtw.distance_fast if nd == 1 else self.dtw_ndim.distance_fast
            out['fast'] = core.call(f, a1, a2, only_ub=ub, **kw)
        if 'use_c' in which:
            f = self.dtw.distance if nd == 1 else self.dtw_ndim.distance
            out['use_c'] = core.call(f, a1, a2, only_ub=ub, use_c=True, **kw)
        if 'matrix' in which and not ub:
            # The pair is the LAST pair of a 4-series collection whose first two series are single points (no psi) - so
            # that anything a kernel leaves behind in the shared settings / scratch state from earlier pairs reaches it.
            # With psi the collection is the pair itself (psi must not exceed the length of any series of a collection).
            n1 = self.np.array(case['s1'], dtype=float)
            n2 = self.np.array(case['s2'], dtype=float)
            if case.get('psi') is None:
                coll, k = [n1[:1].copy(), n2[:1].copy(), n1, n2], 5
            else:
                coll, k = [n1, n2], 0
            f = self.dtw.distance_matrix if nd == 1 else self.dtw_ndim.distance_matrix
            m = core.call(f, coll, use_c=True, compact=True, **kw)
            out['matrix'] = m if isinstance(m, core.Exc) else m[k]
        if 'native' in which:
            s = self.lib.settings(window=kw.get('window'), max_dist=kw.get('max_dist'), max_step=kw.get('max_step'),
                                  max_length_diff=kw.get('max_length_diff'), penalty=kw.get('penalty'), psi=kw.get('psi'),
                                  use_pruning=kw.get('use_pruning'), only_ub=ub, inner_dist=kw['inner_dist'])
            f1 = clib.darr(clib.flat(case['s1']))
            f2 = clib.darr(clib.flat(case['s2']))
            if nd == 1:
                out['native'] = self.lib.dtw_distance(f1, len(case['s1']), f2, len(case['s2']), s)
            else:
                out['native'] = self.lib.dtw_distance_ndim(f1, len(case['s1']), f2, len(case['s2']), nd, s)
        return out


def check_case(acc, E, case, which):
    ref = E.py(case)
    acc.trans()
    if isinstance(ref, core.Exc):
        acc.count('python_exception_not_compared')
        return None
    tol = 1e-12 if (case.get('inner') == 'eu' and case.get('ndim', 1) > 1) else 0.0
    for route, got in E.routes(case, which).items():
        acc.trans()
        acc.valid()
        ok = (not isinstance(got, core.Exc)) and core.ulp_close(got, ref, 4, tol)
        if not ok:
            acc.violation('c_eq_py', 'distance', 'c', tags_of(case, route), case, ref, repr(got) if isinstance(got, core.Exc) else got)
    acc.outcome(ref)
    return ref


def universe(tier, seed, shard, nshards):
    A = univ.alphabet(univ.BASE3, seed)
    A2 = univ.alphabet(univ.BASE2, seed)
    thorough = tier == 'thorough'
    sers = univ.series(A, 1, 4 if thorough else 3)
    idx = 0
    for s1 in sers:
        for s2 in sers:
            idx += 1
            if idx % nshards != shard:
                continue
            r, c = len(s1), len(s2)
            big = max(r, c) > 3
            psis = univ.psi_options(r, c, vals=('0', '1', 'len'), ints=(1, 2)) if not big else \
                [None, 1, (0, 1, 0, 0), (0, 0, 0, 1), (1, 0, 0, 0), (0, 0, 1, 0), (0, r, 0, 0), (0, 0, 0, c), (1, 1, 1, 1)]
            for w in [None, 1, 2] + ([3] if thorough else []):
                for pen in (None, 0.5):
                    for ms in (None, univ.max_step2(seed)):
                        for inner in ('sq', 'eu'):
                            for psi in psis:
                                yield 'U1-values', ('fast', 'native'), {'s1': s1, 's2': s2, 'window': w, 'penalty': pen, 'psi': psi,
                                                                        'max_step': ms, 'inner': inner}
            if big:
                continue
            # U2: encodings of "off", max_dist, pruning, only_ub, max_length_diff; all four routes
            for inner in ('sq', 'eu'):
                for enc in (0, None):
                    yield 'U2-encodings', ('fast', 'use_c', 'matrix', 'native'), {
                        's1': s1, 's2': s2, 'window': None, 'penalty': enc, 'psi': enc if enc is None else (0 if inner == 'sq' else (0, 0, 0, 0)),
                        'max_step': enc, 'max_dist': enc, 'max_length_diff': None, 'use_pruning': None if enc is None else False, 'inner': inner}
                for w in (None, 1, 2):
                    for psi in (None, 1, (0, 1, 0, 1), (1, 0, 1, 0), (1, 0, 0, 0), (0, 0, 1, 0), (0, 1, 0, 0), (0, 0, 0, 1)):
                        if psi is not None and (oracles.psi_degenerate(psi, r, c) or max(oracles.norm_psi(psi)[:2]) > r or max(oracles.norm_psi(psi)[2:]) > c):
                            continue
                        for pen in (None, 0.5):
                            for md in THRESH:
                                for ms in (None, univ.max_step2(seed)):
                                    yield 'U2-max_dist', ('fast', 'use_c', 'matrix', 'native'), {
                                        's1': s1, 's2': s2, 'window': w, 'penalty': pen, 'psi': psi, 'max_step': ms, 'max_dist': md, 'inner': inner}
                            if pen is None or r == c:   # configurations in which the Euclidean distance is a valid bound (C03)
                                yield 'U2-pruning', ('fast', 'use_c', 'matrix', 'native'), {
                                    's1': s1, 's2': s2, 'window': w, 'penalty': pen, 'psi': psi, 'use_pruning': True, 'inner': inner}
                        yield 'U2-only_ub', ('fast', 'use_c', 'native'), {'s1': s1, 's2': s2, 'window': w, 'psi': psi, 'only_ub': True, 'inner': inner}
                    for mld in (1, 2):
                        yield 'U2-mld', ('fast', 'use_c', 'matrix', 'native'), {'s1': s1, 's2': s2, 'window': w, 'max_length_diff': mld, 'inner': inner}
    # U3: shapes
    L = 7 if thorough else 5
    cat = univ.CAT_PAIRS_THOROUGH if thorough else univ.CAT_PAIRS_QUICK
    vals = ('0', '1', '2', 'len') if thorough else ('0', '1', 'len')
    for r in range(1, L + 1):
        for c in range(1, L + 1):
            if max(r, c) <= 3:
                continue
            for w in univ.windows(r, c):
                idx += 1
                if idx % nshards != shard:
                    continue
                for psi in univ.psi_options(r, c, vals=vals, ints=(1, 2)):
                    for (k1, k2) in cat:
                        s1 = univ.catalogue(r, A, k1)
                        s2 = univ.catalogue(c, A, k2)
                        for pen, ms, md in ((None, None, None), (0.5, None, None), (None, 1.2, None), (0.5, 1.2, None), (None, None, 2.2), (0.5, None, 3.1)):
                            yield 'U3-shapes', ('fast', 'matrix', 'native'), {
                                's1': s1, 's2': s2, 'window': w, 'penalty': pen, 'psi': psi, 'max_step': ms, 'max_dist': md,
                                'inner': 'sq' if (k1 + k2) % 2 == 0 else 'eu'}
    # U5: long thin bands
    top = 21 if thorough else 15
    for r in range(1, top):
        for c in range(1, top):
            if max(r, c) < 7:
                continue
            idx += 1
            if idx % nshards != shard:
                continue
            for w in ((1, 2, 3, 4, 5, 7) if thorough else (1, 2, 3, 4)):
                for psi in (None, 1, 2, (0, 0, 0, 3), (0, 3, 0, 0), (3, 0, 0, 0), (0, 0, 3, 0), (0, 0, 0, c), (0, r, 0, 0)) + \
                        (((5, 0, 0, 0), (0, 0, 5, 0), (0, 5, 0, 0), (0, 0, 0, 5), (4, 4, 4, 4)) if thorough else ()):
                    if psi is not None:
                        p = oracles.norm_psi(psi)
                        if oracles.psi_degenerate(p, r, c) or max(p[:2]) > r or max(p[2:]) > c:
                            continue
                    for (k1, k2) in ((0, 3), (5, 0), (1, 2)):
                        for pen, ms, md in ((None, None, None), (0.5, None, None), (None, 1.2, None), (None, None, 3.1)):
                            yield 'U5-long', ('fast', 'native'), {'s1': univ.catalogue(r, A, k1), 's2': univ.catalogue(c, A, k2), 'window': w, 'penalty': pen, 'psi': psi,
                                                                  'max_step': ms, 'max_dist': md, 'inner': 'sq' if (r + c) % 2 else 'eu'}
    # U4: multivariate
    for nd in (2, 3):
        sers_nd = univ.series_nd(A2, nd, 1, 3 if (thorough and nd == 2) else 2)
        for s1 in sers_nd:
            for s2 in sers_nd:
                idx += 1
                if idx % nshards != shard:
                    continue
                r, c = len(s1), len(s2)
                for w in (None, 1):
                    for pen in (None, 0.5):
                        for ms in (None, 1.6):
                            for inner in ('sq', 'eu'):
                                for psi in (None, 1, (0, 1, 0, 0), (0, 0, 0, c), (1, 0, 1, 0)):
                                    if psi is not None and (oracles.psi_degenerate(psi, r, c) or max(oracles.norm_psi(psi)[:2]) > r or max(oracles.norm_psi(psi)[2:]) > c):
                                        continue
                                    yield 'U4-ndim', ('fast', 'use_c', 'matrix', 'native'), {
                                        's1': s1, 's2': s2, 'ndim': nd, 'window': w, 'penalty': pen, 'psi': psi, 'max_step': ms, 'inner': inner}
                        for inner in ('sq', 'eu'):
                            yield 'U4-ndim', ('fast', 'use_c', 'matrix', 'native'), {
                                's1': s1, 's2': s2, 'ndim': nd, 'window': w, 'penalty': pen, 'max_dist': 1.6, 'inner': inner}
                            if pen is None or r == c:
                                yield 'U4-ndim', ('fast', 'use_c', 'matrix', 'native'), {
                                    's1': s1, 's2': s2, 'ndim': nd, 'window': w, 'penalty': pen, 'use_pruning': True, 'inner': inner}
                            yield 'U4-ndim', ('fast', 'use_c', 'native'), {
                                's1': s1, 's2': s2, 'ndim': nd, 'window': w, 'only_ub': True, 'inner': inner}


def worker(acc, shard, nshards, tier, seed):
    E = Engines()
    for sub, which, case in universe(tier, seed, shard, nshards):
        check_case(acc, E, case, which)
        nontrivial = any(case.get(k) for k in ('window', 'penalty', 'psi', 'max_step', 'max_dist', 'use_pruning', 'only_ub', 'max_length_diff')) \
            or case.get('ndim', 1) > 1 or case.get('inner') == 'eu'
        acc.case(sub, nontrivial=bool(nontrivial))
        if not acc.samples or acc.states % 40009 == 1:
            acc.sample(case)


def run(ctx):
    snap = build.snapshot_ext()
    build.activate(snap)
    clib.build_libdd(asserts=False)
    acc = core.run_sharded(worker, extra=(ctx.tier, ctx.seed))
    return core.finish(
        PROP, ctx.tier, ctx.seed, acc,
        rule='product enumeration (no sampling); each case is pushed through the Python engine and 2-4 C routes '
             '(dtw.distance_fast, distance(use_c=True), distance_matrix(use_c=True) with the pair as the last pair of a 4-series collection (as the only pair when psi is set), exported C function via ctypes); '
             'non-trivial = at least one non-default option, euclidean inner distance or ndim > 1',
        bounds={'alphabet': list(univ.alphabet(univ.BASE3, ctx.seed)), 'ndim_alphabet': list(univ.alphabet(univ.BASE2, ctx.seed)),
                'U1': 'all pairs len 1..%d x window x penalty x max_step x inner x all psi forms' % (4 if ctx.thorough else 3),
                'U2': 'len 1..3: None/0 encodings of off; max_dist thresholds %r; use_pruning; only_ub; max_length_diff' % (THRESH,),
                'U3': 'all shapes up to %s x every window x every psi form x catalogue values x penalty/max_step/max_dist' % ('7x7' if ctx.thorough else '5x5'),
                'U5': 'long thin bands: every shape up to %s with max >= 7, windows %s, %d psi forms' % (('20x20', '1..5,7', 14) if ctx.thorough else ('14x14', '1..4', 9)),
                'U4': 'ndim 2..3 vectors over a 2-letter alphabet, len 1..2 (ndim 2: 1..3 in thorough)'},
        assumptions=['differential: the Python engine is the reference (tied to the definition by C01/C11)',
                     'cases on which the Python engine itself raises are counted (python_exception_not_compared) and left to C01/C03/C11',
                     'window=0 and max_length_diff=0 are not generated: the two engines document different meanings for them',
                     'use_pruning is only generated where the Euclidean distance is a valid upper bound (no penalty or equal lengths, no max_step): elsewhere C03 defines no result'],
        t0=ctx.t0)


def replay(ctx, rec):
    snap = build.snapshot_ext()
    build.activate(snap)
    v = rec.get('first', rec)
    case = core.unjson(v['case'])
    acc = core.Acc()
    E = Engines()
    check_case(acc, E, case, ('fast', 'use_c', 'matrix', 'native'))
    print('case=%r violations=%d' % (case, acc.nviol))
    for x in acc.viol:
        print('  ', x['tags']['route'], 'expected', x['expected'], 'observed', x['observed'])
    if acc.nviol:
        print('VIOLATION property=%s replay=-' % PROP)
        return 1
    return 0
