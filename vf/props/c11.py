"""C11 - multivariate DTW == DTW with vector point distances, both engines."""
import itertools

from . import c04
from .. import build, core, oracles, univ
from ..core import inf

PROP = 'C11'
INNERS = {'sq': 'squared euclidean', 'eu': 'euclidean'}


def kw_of(case):
    kw = {'inner_dist': INNERS[case['inner']]}
    for k in ('window', 'penalty', 'psi', 'max_step', 'use_pruning', 'max_length_diff'):
        v = case.get(k)
        if v is not None:
            kw[k] = tuple(v) if isinstance(v, list) else v
    return kw


def tags_of(case, what):
    psi = oracles.norm_psi(case.get('psi') if not isinstance(case.get('psi'), list) else tuple(case['psi']))
    r, c = len(case['s1']), len(case['s2'])
    w = case.get('window')
    return {'what': what, 'ndim': case['ndim'], 'inner': case['inner'], 'window_lt_full': bool(w and w < max(r, c)),
            'penalty_on': bool(case.get('penalty')), 'psi_begin': bool(psi[0] or psi[2]), 'psi_end': bool(psi[1] or psi[3]),
            'max_step_on': bool(case.get('max_step')), 'pruning': bool(case.get('use_pruning'))}


class Eng:
    def __init__(self):
        import numpy as np
        from dtaidistance import dtw, dtw_ndim
        self.np, self.dtw, self.dtw_ndim = np, dtw, dtw_ndim
        assert dtw.dtw_cc is not None


def ref_of(case):
    psi = case.get('psi')
    if isinstance(psi, list):
        psi = tuple(psi)
    return oracles.dtw_ref(case['s1'], case['s2'], window=case.get('window'), penalty=case.get('penalty'), psi=psi,
                           max_step=case.get('max_step'), max_length_diff=case.get('max_length_diff'), inner_dist=INNERS[case['inner']], ndim=True)


def check_case(acc, E, case, full):
    np = E.np
    nd = case['ndim']
    a1, a2 = np.array(case['s1'], dtype=float), np.array(case['s2'], dtype=float)
    kw = kw_of(case)
    exp = ref_of(case)
    tol = 1e-12
    r, c = len(case['s1']), len(case['s2'])
    I = oracles.INNER_ND[INNERS[case['inner']]]

    def judge(what, eng, got):
        acc.trans()
        acc.valid()
        if isinstance(got, core.Exc) or not core.ulp_close(float(got), exp, 4, tol):
            acc.violation('value', what, eng, tags_of(case, what), case, exp, repr(got) if isinstance(got, core.Exc) else float(got))

    judge('dtw_ndim.distance', 'py', core.call(E.dtw_ndim.distance, a1, a2, **kw))
    judge('dtw_ndim.distance_fast', 'c', core.call(E.dtw_ndim.distance_fast, a1, a2, **kw))
    if nd == 1:
        # d = 1 coincides with the univariate routine on the flattened series
        f1 = [p[0] for p in case['s1']]
        f2 = [p[0] for p in case['s2']]
        judge('dtw.distance(flattened)', 'py', core.call(E.dtw.distance, f1, f2, **kw))
    if not full:
        return exp
    # accumulated cost matrix: returned distance, shape and every cell
    ref4 = None
    for eng, f in (('py', E.dtw_ndim.warping_paths), ('c', E.dtw_ndim.warping_paths_fast)):
        res = core.call(f, a1, a2, **kw)
        if isinstance(res, core.Exc):
            judge('dtw_ndim.warping_paths', eng, res)
            continue
        d, M = res
        judge('dtw_ndim.warping_paths', eng, d)
        if tuple(M.shape) != (r + 1, c + 1):
            acc.violation('shape', 'dtw_ndim.warping_paths', eng, tags_of(case, 'wps_shape'), case, [r + 1, c + 1], list(M.shape))
        elif not case.get('use_pruning'):
            # cell-wise content with the vector point distance (same judge as C04: band, psi marks, max_dist freedom)
            if ref4 is None:
                P4 = oracles.pd_matrix(case['s1'], case['s2'], I.pd)
                psi4 = oracles.norm_psi(kw.get('psi'))
                ref4 = (oracles.cells(P4, r, c, case.get('window'), I.ival(case['penalty']) if case.get('penalty') else 0.0, psi4,
                                      I.ival(case['max_step']) if case.get('max_step') else inf), psi4)
            c04.judge(acc, case, 'dtw_ndim.warping_paths', eng, d, M.tolist(), 0, 0, I, ref4[0], ref4[1], inf)
    if case.get('use_pruning'):
        return exp
    # best path: valid and achieves the distance
    P = oracles.pd_matrix(case['s1'], case['s2'], I.pd)
    pen = I.ival(case['penalty']) if case.get('penalty') else 0.0
    ms = I.ival(case['max_step']) if case.get('max_step') else inf
    psi = oracles.norm_psi(kw.get('psi'))
    paths = [('py', 'dtw_ndim.warping_path', core.call(E.dtw_ndim.warping_path, a1, a2, **kw))]
    ckw = {k: v for k, v in kw.items() if k not in ('inner_dist',)}
    if case['inner'] == 'sq':
        paths.append(('c', 'dtw_cc.warping_path_ndim', core.call(E.dtw.dtw_cc.warping_path_ndim, a1, a2, nd, **ckw)))
    for eng, api, p in paths:
        acc.trans()
        if exp == inf:
            continue   # no admissible path exists: nothing to demand from the traced path
        acc.valid()
        if isinstance(p, core.Exc):
            acc.violation('path', api, eng, tags_of(case, 'path'), case, 'a path', repr(p))
            continue
        p = [tuple(int(x) for x in ij) for ij in p]
        why = oracles.path_valid(p, r, c, case.get('window'), psi, P, ms)
        if why is None:
            cost = I.result(oracles.path_cost(p, P, pen))
            if not core.ulp_close(cost, exp, 4, tol):
                why = 'path cost %r != distance %r' % (cost, exp)
        if why is not None:
            t = tags_of(case, 'path')
            acc.violation('path', api, eng, t, case, 'valid optimal path', {'path': p, 'why': why})
    return exp


def check_matrix(acc, E, coll, nd, inner, w):
    """distance_matrix over a collection in both container forms and both engines == pairwise reference."""
    np = E.np
    n = len(coll)
    exp = []
    for i in range(n):
        for j in range(i + 1, n):
            exp.append(oracles.dtw_ref(coll[i], coll[j], window=w, inner_dist=INNERS[inner], ndim=True))
    equal_len = len(set(len(s) for s in coll)) == 1
    forms = [('list2d', [np.array(s, dtype=float) for s in coll])]
    if equal_len:
        forms.append(('array3d', np.array(coll, dtype=float)))
    kw = {'inner_dist': INNERS[inner]}
    if w is not None:
        kw['window'] = w
    for cname, data in forms:
        for eng in ('py', 'c'):
            got = core.call(E.dtw_ndim.distance_matrix, data, compact=True, use_c=(eng == 'c'), **kw)
            acc.trans()
            acc.valid()
            ok = not isinstance(got, core.Exc) and len(got) == len(exp) and all(core.ulp_close(float(g), e, 4, 1e-12) for g, e in zip(got, exp))
            if not ok:
                acc.violation('matrix', 'dtw_ndim.distance_matrix', eng,
                              {'what': 'matrix', 'ndim': nd, 'inner': inner, 'container': cname, 'window_lt_full': bool(w)},
                              {'series': coll, 'ndim': nd, 'inner': inner, 'window': w, 'container': cname}, exp,
                              repr(got) if isinstance(got, core.Exc) else [float(x) for x in got])


def universe(tier, seed, shard, nshards):
    thorough = tier == 'thorough'
    A2 = univ.alphabet(univ.BASE2, seed)
    idx = 0
    for nd in ((1, 2, 3, 4) if thorough else (1, 2, 3)):
        maxlen = {1: 3, 2: 3, 3: 2, 4: 2}[nd]
        if not thorough and nd == 2:
            maxlen = 3
        sers = univ.series_nd(A2, nd, 1, maxlen)
        for s1 in sers:
            for s2 in sers:
                r, c = len(s1), len(s2)
                if nd == 2 and not thorough and r + c > 5:
                    continue
                idx += 1
                if idx % nshards != shard:
                    continue
                psis = [None, 1, (0, 1, 0, 0), (0, 0, 0, 1), (1, 0, 0, 0), (0, 0, 1, 0), (0, r, 0, 0), (0, 0, 0, c), (1, 1, 0, 0)]
                for w in (None, 1, 2):
                    for pen in (None, 0.5):
                        for ms in (None, 1.6):
                            for inner in ('sq', 'eu'):
                                for psi in psis:
                                    if psi is not None:
                                        p = oracles.norm_psi(psi)
                                        if oracles.psi_degenerate(p, r, c) or max(p[:2]) > r or max(p[2:]) > c:
                                            continue
                                    yield 'U-pair-d%d' % nd, {'s1': s1, 's2': s2, 'ndim': nd, 'window': w, 'penalty': pen, 'psi': psi,
                                                              'max_step': ms, 'inner': inner}
                        for inner in ('sq', 'eu'):
                            if pen is None or r == c:
                                yield 'U-pruning-d%d' % nd, {'s1': s1, 's2': s2, 'ndim': nd, 'window': w, 'penalty': pen, 'inner': inner, 'use_pruning': True}
                        if r != c and pen is None:
                            # the length-difference limit counts points, not numbers: |r - c| against 1, 2 (also where |r - c| * d would exceed it)
                            for mld in (1, 2):      # (0 means 'no limit' in the C settings: not expressible in both engines)
                                yield 'U-mld-d%d' % nd, {'s1': s1, 's2': s2, 'ndim': nd, 'window': w, 'penalty': None, 'psi': None, 'max_step': None,
                                                         'inner': 'sq' if w is None else 'eu', 'max_length_diff': mld}


def matrix_universe(tier, seed, shard, nshards):
    A2 = univ.alphabet(univ.BASE2, seed)
    idx = 0
    for nd in (1, 2, 3):
        sers = univ.series_nd(A2, nd, 1, 2)
        if nd == 3:
            sers = sers[:24]
        for coll in itertools.combinations(sers, 3):
            idx += 1
            if idx % nshards != shard:
                continue
            if idx % 7 and tier != 'thorough':
                continue
            for inner in ('sq', 'eu'):
                for w in (None, 1):
                    yield nd, coll, inner, w


def worker(acc, shard, nshards, tier, seed):
    E = Eng()
    for sub, case in universe(tier, seed, shard, nshards):
        # (max_length_diff is an option of the distance routines; the matrix / path routines are not asked for it)
        exp = check_case(acc, E, case, case.get('max_length_diff') is None)
        # non-trivial: more than one dimension carries information (not a multiple of a single component)
        nt = case['ndim'] > 1 and any(len(set(p)) > 1 for p in list(case['s1']) + list(case['s2']))
        acc.case(sub, nontrivial=nt)
        acc.outcome(exp)
        if not acc.samples or acc.states % 20011 == 1:
            acc.sample(case)
    for nd, coll, inner, w in matrix_universe(tier, seed, shard, nshards):
        check_matrix(acc, E, coll, nd, inner, w)
        acc.case('U-matrix-d%d' % nd, nontrivial=nd > 1)


def run(ctx):
    snap = build.snapshot_ext()
    build.activate(snap)
    acc = core.run_sharded(worker, extra=(ctx.tier, ctx.seed))
    return core.finish(
        PROP, ctx.tier, ctx.seed, acc,
        rule='all pairs of series of d-vectors over a 2-letter alphabet x settings cross; distance, warping_paths (value, shape, every in-band cell against the reference table with the vector point distance), warping_path (validity, cost) '
             'in both engines vs path-definition reference with vector point distance; d=1 also vs the univariate routine; distance_matrix over 3-collections '
             'in list-of-2D and 3-D containers; non-trivial = d > 1 and some point has unequal components',
        bounds={'alphabet': list(univ.alphabet(univ.BASE2, ctx.seed)), 'ndim': '1..%d' % (4 if ctx.thorough else 3),
                'lengths': 'd=1,2: 1..3 (quick d=2: r+c <= 5), d>=3: 1..2', 'settings': 'window{None,1,2} x penalty{None,.5} x max_step{None,1.6} x inner x 9 psi forms; use_pruning where valid',
                'matrix': '3-collections of series of length 1..2 (every 7th in quick), windows {None,1}'},
        assumptions=['reference = vf.oracles path definition with vector point distance; tolerance 4 ulp or 1e-12 relative (euclidean inner distance is inexact)',
                     'the Euclidean upper bound for n-dim series and only_ub are covered in C09'],
        t0=ctx.t0)


def replay(ctx, rec):
    snap = build.snapshot_ext()
    build.activate(snap)
    v = rec.get('first', rec)
    case = core.unjson(v['case'])
    E = Eng()
    acc = core.Acc()
    tup = lambda s: tuple(tuple(p) for p in s)
    if 'series' in case:
        check_matrix(acc, E, tuple(tup(s) for s in case['series']), case['ndim'], case['inner'], case.get('window'))
    else:
        case['s1'] = tup(case['s1']); case['s2'] = tup(case['s2'])
        check_case(acc, E, case, True)
    for x in acc.viol:
        print('  ', x['check'], x['api'], x['engine'], 'expected', x['expected'], 'observed', x['observed'])
    if acc.nviol:
        print('VIOLATION property=%s replay=-' % PROP)
        return 1
    print('no violation')
    return 0
