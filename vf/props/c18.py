"""C18 - affinity (local-concurrence) matrix follows its recurrence in both engines; matches are valid and never reuse cells."""
import itertools
import math

from .. import build, clib, core, oracles, univ
from ..core import inf

PROP = 'C18'
NEG = -inf


def close(a, b):
    if a == b:
        return True
    if a in (inf, NEG) or b in (inf, NEG):
        return False
    return abs(a - b) <= 1e-12 * max(1.0, abs(a), abs(b))


def affinity_ref(s1, s2, gamma, tau, delta, df, pen, window, only_triu):
    """Literal transcription of the documented recurrence; A has the virtual first row/column; excluded cells are -inf."""
    r, c = len(s1), len(s2)
    A = [[NEG] * (c + 1) for _ in range(r + 1)]
    A[0][0] = 0.0
    took_tau = False
    for i in range(r):
        js, je = oracles.band_row(i, r, c, window)
        if only_triu:
            js = max(js, i)
        for j in range(js, je):
            d = math.exp(-gamma * (s1[i] - s2[j]) ** 2)
            prev = max(A[i][j], A[i][j + 1] - pen, A[i + 1][j] - pen)
            if d < tau:
                took_tau = True
                A[i + 1][j + 1] = max(0.0, delta + df * prev)
            else:
                A[i + 1][j + 1] = max(0.0, d + prev)
    return A, took_tau


class Eng:
    def __init__(self):
        import numpy as np
        from dtaidistance import dtw
        from dtaidistance.subsequence import localconcurrences as lcm
        self.np, self.dtw, self.lcm = np, dtw, lcm
        assert dtw.dtw_cc is not None and lcm.dtw_cc is not None
        self.fresh_cache = {}


def matrix_case(acc, E, case, slices):
    np, dtw = E.np, E.dtw
    s1, s2 = case['s1'], case['s2']
    r, c = len(s1), len(s2)
    pen = case['penalty'] or 0.0
    A, took_tau = affinity_ref(s1, s2, case['gamma'], case['tau'], case['delta'], case['delta_factor'], pen, case['window'], case['only_triu'])
    a1, a2 = np.array(s1, dtype=float), np.array(s2, dtype=float)
    kw = dict(window=case['window'], only_triu=case['only_triu'], penalty=case['penalty'], gamma=case['gamma'], tau=case['tau'], delta=case['delta'],
              delta_factor=case['delta_factor'])
    tags = {'window_on': bool(case['window']), 'only_triu': case['only_triu'], 'penalty': 'none' if case['penalty'] is None else ('zero' if case['penalty'] == 0 else 'pos'),
            'tau_on': case['tau'] > 0, 'delta_factor_lt1': case['delta_factor'] < 1, 'unequal': r != c}

    def judge(name, eng, M, rb=0, cb=0, pyM=None):
        acc.valid()
        bad = None
        for bi, row in enumerate(M):
            for bj, got in enumerate(row):
                i, j = rb + bi, cb + bj
                got = float(got)
                if i == 0 or j == 0:
                    continue     # virtual start cells: not described by C18, not judged
                exp = A[i][j]
                if not close(got, exp):
                    bad = bad or ((i, j), exp, got, 'cell differs from the recurrence' if exp != NEG else 'excluded cell is not -inf')
        if bad:
            acc.violation('cell', name, eng, dict(tags, reason=bad[3]), dict(case, block=[rb, cb, len(M), len(M[0]) if M else 0]), {'cell': bad[0], 'value': bad[1]}, {'cell': bad[0], 'value': bad[2]})

    res = core.call(dtw.warping_paths_affinity, a1, a2, **kw)
    acc.trans()
    pyM = None
    if isinstance(res, core.Exc):
        acc.valid()
        acc.violation('call', 'py.warping_paths_affinity', 'py', tags, case, '(d, matrix)', repr(res))
    else:
        pyM = res[1].tolist()
        judge('py.warping_paths_affinity', 'py', pyM)
    res = core.call(dtw.warping_paths_affinity_fast, a1, a2, **kw)
    acc.trans()
    if isinstance(res, core.Exc):
        acc.valid()
        acc.violation('call', 'c.warping_paths_affinity_fast', 'c', tags, case, '(d, matrix)', repr(res))
    else:
        judge('c.warping_paths_affinity_fast', 'c', res[1].tolist(), pyM=pyM)
    res = core.call(dtw.warping_paths_affinity_fast, a1, a2, compact=True, **kw)
    acc.trans()
    if isinstance(res, core.Exc):
        acc.valid()
        acc.violation('call', 'c.compact', 'c', tags, case, '(d, compact)', repr(res))
    else:
        W = res[1]
        st = dtw.dtw_cc.DTWSettings(window=case['window'], penalty=case['penalty'])
        blocks = [(0, r + 1, 0, c + 1)]
        if slices:
            blocks = [(rb, re, cb, ce) for rb in range(r + 1) for re in range(rb + 1, r + 2) for cb in range(c + 1) for ce in range(cb + 1, c + 2)]
        for rb, re, cb, ce in blocks:
            S = np.empty((re - rb, ce - cb), dtype=float)
            out = core.call(dtw.dtw_cc.wps_expand_slice, W, S, r, c, rb, re, cb, ce, st)
            acc.trans()
            if isinstance(out, core.Exc):
                acc.valid()
                acc.violation('call', 'c.compact+slice', 'c', tags, dict(case, block=[rb, re, cb, ce]), 'a slice', repr(out))
                break
            judge('c.compact+slice' if (rb, re, cb, ce) != (0, r + 1, 0, c + 1) else 'c.compact+expand', 'c', S.tolist(), rb, cb, pyM)
    return took_tau


# ---------------------------------------------------------------- local concurrence matches and histories

def check_path(path, A, minlen):
    if not path:
        return 'empty path'
    if len(path) < minlen:
        return 'path shorter than minlen: %r' % (path,)
    for k, (i, j) in enumerate(path):
        if not (0 <= i < len(A) - 1 and 0 <= j < len(A[0]) - 1):
            return 'cell %r outside the matrix' % ((i, j),)
        if not (A[i + 1][j + 1] > 0):
            return 'cell %r is not positive in the affinity matrix (%r)' % ((i, j), A[i + 1][j + 1])
        if k > 0:
            pi, pj = path[k - 1]
            if (i - pi, j - pj) not in ((1, 1), (1, 0), (0, 1)):
                return 'illegal step %r -> %r' % ((pi, pj), (i, j))
    return None


HOPS = ('N1', 'N2', 'S', 'SK', 'SN', 'SKN', 'R')     # S*: kbest_matches_store, K = keep=True, N = restart=False


def run_history(acc, E, cfg, hist, it_args):
    np, lcm = E.np, E.lcm
    s1 = np.array(cfg['s1'], dtype=float)
    s2 = None if cfg['s2'] is None else np.array(cfg['s2'], dtype=float)
    lc = lcm.local_concurrences(s1, s2, gamma=cfg['gamma'], tau=cfg['tau'], delta=cfg['delta'], delta_factor=cfg['delta_factor'],
                                penalty=cfg['penalty'], window=cfg['window'], use_c=cfg['use_c'], compact=cfg['compact'])
    x1 = cfg['s1']
    x2 = cfg['s1'] if cfg['s2'] is None else cfg['s2']
    A, _ = affinity_ref(x1, x2, cfg['gamma'], cfg['tau'], cfg['delta'], cfg['delta_factor'], cfg['penalty'] or 0.0, cfg['window'], cfg['s2'] is None)
    used = set()
    its = {}
    nmatches = 0

    def make():
        return lcm.local_concurrences(s1, s2, gamma=cfg['gamma'], tau=cfg['tau'], delta=cfg['delta'], delta_factor=cfg['delta_factor'],
                                      penalty=cfg['penalty'], window=cfg['window'], use_c=cfg['use_c'], compact=cfg['compact'])

    def fresh_first(a):
        """What a fresh object answers: first match of kbest_matches(**a) (None if there is none)."""
        key = ('first', repr(sorted(cfg.items())), repr(sorted(a.items())))
        if key not in E.fresh_cache:
            if len(E.fresh_cache) > 4000:
                E.fresh_cache.clear()
            try:
                m = next(make().kbest_matches(**a))
                E.fresh_cache[key] = [(int(i), int(j)) for i, j in m.path]
            except StopIteration:
                E.fresh_cache[key] = None
        return E.fresh_cache[key]

    def fresh_store():
        key = ('store', repr(sorted(cfg.items())))
        if key not in E.fresh_cache:
            ms = make().kbest_matches_store(k=2, minlen=2, buffer=0, restart=True, keep=False)
            E.fresh_cache[key] = [[(int(i), int(j)) for i, j in m.path] for m in ms]
        return E.fresh_cache[key]

    posvals = [v for row in A[1:] for v in row[1:] if v > 0 and v != inf]
    M = max(posvals) if posvals else None
    clean = True          # no cell is consumed: the next match must be traced from the maximum of the matrix
    for op in hist:
        if op == 'R':
            lc.reset()
            lc.align()
            its.clear()
            used.clear()
            clean = True
            continue
        new = []
        restarted = None
        if op in ('N1', 'N2'):
            a = it_args[0 if op == 'N1' else 1]
            first_step = op not in its
            if op not in its:
                its[op] = lc.kbest_matches(**a)
                if a['restart']:
                    used.clear()      # the first step of a restarting iterator resets the mask
            if first_step and a['restart']:
                clean = True
            try:
                m = next(its[op])
                new.append((m, a['minlen']))
            except StopIteration:
                m = None
            if clean and a['minlen'] == 1:
                # "traced from a maximum": with nothing consumed and no minimal length, the match starts at a maximal cell
                if m is None and M is not None and first_step:      # (an old iterator may simply have delivered its k matches)
                    return 'no match although the matrix has positive cells (maximum %r)' % (M,), nmatches
                if m is not None and (M is None or not close(A[int(m.row)][int(m.col)], M)):
                    return 'first match after a (re)start is traced from cell (%d,%d) with affinity %r, the maximum over the admissible cells is %r' % (
                        int(m.row) - 1, int(m.col) - 1, A[int(m.row)][int(m.col)], M), nmatches
            if m is not None:
                clean = False
            if first_step and a['restart']:
                # restart=True: "start searching from start, ignore previous calls" - same first match as a fresh object
                want = fresh_first(a)
                got = None if m is None else [(int(i), int(j)) for i, j in m.path]
                if got != want:
                    return 'first match of a restarting iterator is %r, a fresh object gives %r' % (got, want), nmatches
        else:
            keep = op in ('SK', 'SKN')
            restart = op in ('S', 'SK')
            was_clean = clean
            if restart:
                used.clear()          # restart=True: the mask is reset before the search
            ms = lc.kbest_matches_store(k=2, minlen=2, buffer=0, restart=restart, keep=keep)
            new.extend((m, 2) for m in ms)
            got = [[(int(i), int(j)) for i, j in m.path] for m in ms]
            if restart or was_clean:
                want = fresh_store()
                if got != want:
                    return 'kbest_matches_store (%s) returned %r, a fresh object gives %r' % ('restart=True' if restart else 'nothing consumed yet', got, want), nmatches
            clean = not keep
        for m, minlen in new:
            nmatches += 1
            path = [(int(i), int(j)) for i, j in m.path]
            why = check_path(path, A, minlen)
            if why is None and path[-1] != (int(m.row) - 1, int(m.col) - 1):
                why = 'path %r does not end in the reported maximum (%d,%d)' % (path, m.row - 1, m.col - 1)
            if why is None:
                dup = [cell for cell in path if cell in used]
                if dup:
                    why = 'cell %r of match %r was already used by an earlier match of the same un-restarted history' % (dup[0], path)
            if why:
                return why, nmatches
            used.update(path)
        if op in ('S', 'SN'):
            used.clear()              # keep=False: the mask is reset afterwards
    return None, nmatches


def check_histories(acc, E, cfg, depth):
    argsets = [(dict(k=None, minlen=2, buffer=0, restart=True), dict(k=2, minlen=1, buffer=0, restart=False)),
               (dict(k=2, minlen=1, buffer=-1, restart=True), dict(k=None, minlen=2, buffer=0, restart=True))]
    if not cfg['compact']:
        argsets.append((dict(k=None, minlen=1, buffer=1, restart=True), dict(k=1, minlen=2, buffer=0, restart=False)))
    for it_args in argsets:
        frontier = [()]
        for d in range(depth):
            nxt = []
            for h in frontier:
                for op in HOPS:
                    hist = h + (op,)
                    core.crumb({'config': cfg, 'history': list(hist), 'iterators': it_args})
                    res = core.call(run_history, acc, E, cfg, hist, it_args)
                    acc.trans(len(hist))
                    acc.valid()
                    if isinstance(res, core.Exc):
                        why, nm = repr(res), 0
                    else:
                        why, nm = res
                    acc.case('histories', nontrivial=nm >= 2)
                    if why:
                        acc.violation('match', 'LocalConcurrences', 'c' if cfg['use_c'] else 'py',
                                      {'what': 'match', 'compact': cfg['compact'], 'use_c': cfg['use_c'], 'self': cfg['s2'] is None, 'window_on': bool(cfg['window']),
                                       'buffer': it_args[0]['buffer']},
                                      {'config': cfg, 'history': list(hist), 'iterators': it_args}, 'valid, positive, non-reusing matches', why)
                    nxt.append(hist)
            frontier = nxt


def universe(tier, seed, shard, nshards):
    thorough = tier == 'thorough'
    A = univ.alphabet(univ.BASE3, seed)
    sers = univ.series(A, 1, 4 if thorough else 3)
    idx = 0
    for s1 in sers:
        for s2 in sers:
            if thorough and len(s1) + len(s2) > 7:
                continue
            idx += 1
            if idx % nshards != shard:
                continue
            slices = max(len(s1), len(s2)) <= 3 and (idx // nshards) % 4 == 0
            for gamma in (1, 0.5):
                for tau in (0, 0.3, 0.7):
                    for delta in (0, -0.5):
                        for df in (1, 0.5):
                            for pen in (None, 0, 0.1):
                                for w in (None, 1, 2):
                                    for triu in (False, True):
                                        if tau == 0 and (delta != 0 or df != 1):
                                            continue
                                        yield slices and gamma == 1 and pen != 0, {'s1': s1, 's2': s2, 'gamma': gamma, 'tau': tau, 'delta': delta, 'delta_factor': df,
                                                                              'penalty': pen, 'window': w, 'only_triu': triu}


def hist_universe(tier, seed, shard, nshards):
    A = univ.alphabet(univ.BASE3, seed)
    a0, a1, a2 = A
    data = [((a0, a1, a2, a1, a0, a1, a2), None), ((a0, a1, a2, a1), (a1, a2, a1, a0, a0)), ((a2, a0, a0, a2, a0), (a0, a0, a2)), ((a1, a1, a1, a1), None),
            ((a0, a1, a2), (a1, a1, a0, a1, a2)), ((a2, a0), (a1, a1, a1, a2, a0))]
    idx = 0
    for s1, s2 in data:
        for tau, delta, df in ((0, 0, 1), (0.5, -0.5, 0.5)):
            for pen in (None, 0.1):
                for w in ((None, 2) if (s2 is None or len(s2) - len(s1) < 2) else (1, 2)):
                    for use_c, compact in ((False, False), (True, False), (True, True)):
                        idx += 1
                        if idx % nshards != shard:
                            continue
                        yield {'s1': s1, 's2': s2, 'gamma': 1, 'tau': tau, 'delta': delta, 'delta_factor': df, 'penalty': pen, 'window': w, 'use_c': use_c, 'compact': compact}


def worker(acc, shard, nshards, tier, seed):
    E = Eng()
    for slices, case in universe(tier, seed, shard, nshards):
        core.crumb(case)
        took = matrix_case(acc, E, case, slices)
        acc.case('matrix', nontrivial=bool(took or case['window'] or case['only_triu']))
        if not acc.samples or acc.states % 20011 == 1:
            acc.sample(case)
    depth = 4 if tier == 'thorough' else 3
    for cfg in hist_universe(tier, seed, shard, nshards):
        check_histories(acc, E, cfg, depth)


def run(ctx):
    snap = build.snapshot_ext()
    build.activate(snap)
    acc = core.run_sharded(worker, extra=(ctx.tier, ctx.seed))
    return core.finish(
        PROP, ctx.tier, ctx.seed, acc,
        rule='matrix: all series pairs (len 1..%d) x gamma{1,.5} x tau{0,.3,.7} x delta{0,-.5} x delta_factor{1,.5} x penalty{None,0,.1} x window{None,1,2} x only_triu, producers Python, C full, C compact + '
             'wps_expand_slice (every slice for a quarter of the small pairs); histories: every sequence up to depth %d over {next(iterator 1), next(iterator 2), kbest_matches_store(keep x restart: 4 forms), '
             'reset+align} for 3 engines/layouts; non-trivial = tau branch taken or band/triangle active; history with >= 2 matches'
             % (4 if ctx.thorough else 3, 4 if ctx.thorough else 3),
        bounds={'alphabet': list(univ.alphabet(univ.BASE3, ctx.seed)), 'history_data': '6 series pairs (2 self-comparisons, 2 with the best alignment in the part of the band that exists only because series 2 is longer) x 2 (tau,delta,delta_factor) x penalty{None,.1} x window{None,2} / {1,2}',
                'iterator_args': 'k{None,1,2} x minlen{1,2} x buffer{0,-1,1 (not compact)} x restart{T,F}'},
        assumptions=['reference = literal transcription of the recurrence in C18; excluded cells are -inf; tolerance 1e-12 (exp is not exact)',
                     'after a restart (restart=True iterator, kbest_matches_store) the first match / the stored matches must equal those of a fresh object', 'an un-restarted history ends when the mask is reset: first step of an iterator created with restart=True, kbest_matches_store (restart=True; and its end when keep=False), reset()',
                     'the value returned next to the matrix and psi-relaxation of the affinity routine are not described by C18 and not judged'],
        t0=ctx.t0)


def replay(ctx, rec):
    snap = build.snapshot_ext()
    build.activate(snap)
    v = rec.get('first', rec)
    c = core.unjson(v['case'])
    E = Eng()
    acc = core.Acc()
    tup = lambda s: None if s is None else tuple(s)
    if 'history' in c:
        cfg = c['config']
        cfg['s1'] = tup(cfg['s1']); cfg['s2'] = tup(cfg['s2'])
        res = core.call(run_history, acc, E, cfg, c['history'], c['iterators'])
        print(res)
        bad = isinstance(res, core.Exc) or res[0]
    else:
        c.pop('block', None)
        c['s1'] = tup(c['s1']); c['s2'] = tup(c['s2'])
        matrix_case(acc, E, c, True)
        for x in acc.viol[:5]:
            print('  ', x['check'], x['api'], x['tags'].get('reason'), 'expected', x['expected'], 'observed', x['observed'])
        bad = acc.nviol
    if bad:
        print('VIOLATION property=%s replay=-' % PROP)
        return 1
    print('no violation')
    return 0
