"""C04 - accumulated-cost matrix is cell-wise optimal and identical across engines.

Producers: Python warping_paths; C full matrix (warping_paths_fast); C compact array + dtw_expand_wps;
C compact array + dtw_expand_wps_slice for every slice.  Oracle: reference table of per-cell optima.
"""
import array
import ctypes
import math

from .. import build, clib, core, oracles, univ
from ..core import inf

PROP = 'C04'
INNERS = {'sq': 'squared euclidean', 'eu': 'euclidean'}


def kw_of(case):
    kw = {'inner_dist': INNERS[case['inner']]}
    for k in ('window', 'penalty', 'psi', 'max_step', 'max_dist'):
        v = case.get(k)
        if v is not None:
            kw[k] = tuple(v) if isinstance(v, list) else v
    return kw


def tags_of(case, producer, what):
    psi = oracles.norm_psi(case.get('psi') if not isinstance(case.get('psi'), list) else tuple(case['psi']))
    r, c = len(case['s1']), len(case['s2'])
    w = case.get('window')
    return {'producer': producer, 'what': what, 'ndim': case.get('ndim', 1), 'inner': case['inner'],
            'window_lt_full': bool(w and w < max(r, c)), 'penalty_on': bool(case.get('penalty')),
            'psi_begin': bool(psi[0] or psi[2]), 'psi_end': bool(psi[1] or psi[3]), 'max_step_on': bool(case.get('max_step')),
            'max_dist_on': bool(case.get('max_dist')), 'keep_int_repr': bool(case.get('keep_int_repr')), 'psi_neg': bool(case.get('psi_neg', True))}


class Eng:
    def __init__(self):
        import numpy as np
        from dtaidistance import dtw, dtw_ndim
        self.np, self.dtw, self.dtw_ndim = np, dtw, dtw_ndim
        assert dtw.dtw_cc is not None
        self.lib = clib.Lib(clib.build_libdd(asserts=False))

    def arrs(self, case):
        np = self.np
        return np.array(case['s1'], dtype=float), np.array(case['s2'], dtype=float)

    def py_full(self, case):
        a1, a2 = self.arrs(case)
        nd = case.get('ndim', 1) > 1
        f = self.dtw_ndim.warping_paths if nd else self.dtw.warping_paths
        return core.call(f, a1, a2, psi_neg=case.get('psi_neg', True), keep_int_repr=bool(case.get('keep_int_repr')), **kw_of(case))

    def c_full(self, case):
        a1, a2 = self.arrs(case)
        nd = case.get('ndim', 1) > 1
        f = self.dtw_ndim.warping_paths_fast if nd else self.dtw.warping_paths_fast
        return core.call(f, a1, a2, psi_neg=case.get('psi_neg', True), keep_int_repr=bool(case.get('keep_int_repr')), **kw_of(case))

    def c_compact(self, case):
        """Compact array through the exported C function into a buffer of exactly the advertised size."""
        kw = kw_of(case)
        lib = self.lib
        nd = case.get('ndim', 1)
        st = lib.settings(window=kw.get('window'), max_dist=kw.get('max_dist'), max_step=kw.get('max_step'), penalty=kw.get('penalty'),
                          psi=kw.get('psi'), inner_dist=kw['inner_dist'])
        l1, l2 = len(case['s1']), len(case['s2'])
        n = lib.dtw_settings_wps_length(l1, l2, st)
        wps = (clib.seq_t * n)()
        f1, f2 = clib.darr(clib.flat(case['s1'])), clib.darr(clib.flat(case['s2']))
        if nd == 1:
            d = lib.dtw_warping_paths(wps, f1, l1, f2, l2, True, bool(case.get('keep_int_repr')), case.get('psi_neg', True), st)
        else:
            d = lib.dtw_warping_paths_ndim(wps, f1, l1, f2, l2, True, bool(case.get('keep_int_repr')), case.get('psi_neg', True), nd, st)
        return d, wps, st

    def expand(self, wps, st, l1, l2):
        full = (clib.seq_t * ((l1 + 1) * (l2 + 1)))()
        self.lib.dtw_expand_wps(wps, full, l1, l2, st)
        return [[full[i * (l2 + 1) + j] for j in range(l2 + 1)] for i in range(l1 + 1)]

    def expand_slice(self, wps, st, l1, l2, rb, re, cb, ce):
        n = (re - rb) * (ce - cb)
        full = (clib.seq_t * n)()
        self.lib.dtw_expand_wps_slice(wps, full, l1, l2, rb, re, cb, ce, st)
        return [[full[i * (ce - cb) + j] for j in range(ce - cb)] for i in range(re - rb)]

    def dist_only(self, eng, case):
        a1, a2 = self.arrs(case)
        nd = case.get('ndim', 1) > 1
        if eng == 'py':
            f = self.dtw_ndim.distance if nd else self.dtw.distance
        else:
            f = self.dtw_ndim.distance_fast if nd else self.dtw.distance_fast
        return core.call(f, a1, a2, **kw_of(case))


def reference(case):
    nd = case.get('ndim', 1) > 1
    I = oracles.inner_of(INNERS[case['inner']], nd)
    s1, s2 = case['s1'], case['s2']
    r, c = len(s1), len(s2)
    psi = oracles.norm_psi(case.get('psi') if not isinstance(case.get('psi'), list) else tuple(case['psi']))
    P = oracles.pd_matrix(s1, s2, I.pd)
    pen = I.ival(case['penalty']) if case.get('penalty') else 0.0
    ms = I.ival(case['max_step']) if case.get('max_step') else inf
    D = oracles.cells(P, r, c, case.get('window'), pen, psi, ms)
    md = I.ival(case['max_dist']) if case.get('max_dist') else inf
    return I, D, psi, md


def judge(acc, case, producer, eng, d, M, rb, cb, I, D, psi, md, pyM=None):
    """Compare block M (rows rb.., cols cb.. of the full matrix) with the reference table."""
    r, c = len(case['s1']), len(case['s2'])
    keep = bool(case.get('keep_int_repr'))
    tol = 1e-12 if (case['inner'] == 'eu' and case.get('ndim', 1) > 1) else 0.0
    conv = (lambda v: v) if keep else I.result
    neg = []
    bad = None
    for bi, row in enumerate(M):
        for bj, got in enumerate(row):
            i, j = rb + bi, cb + bj      # full matrix indices
            got = float(got)
            if got == -1.0:
                neg.append((i, j))
                continue
            if i == 0 or j == 0:
                # row 0 / column 0 hold the virtual start cells; C04 describes neither their content nor their band
                # (the engines legitimately differ where such a cell has no in-band neighbour): not judged
                continue
            v = D.get((i - 1, j - 1))
            if v is None:
                if got != inf:
                    bad = bad or ('out-of-band or unreachable cell is not inf', (i, j), inf, got)
                continue
            if v > md * (1 + 1e-9):
                lim = conv(md)
                if not (got == inf or got > lim * (1 - 1e-9)):
                    bad = bad or ('cell above max_dist holds a value not above max_dist', (i, j), '> %r or inf' % lim, got)
                continue
            if v > md * (1 - 1e-9):
                continue
            exp = conv(v)
            if not core.ulp_close(got, exp, 4, tol):
                bad = bad or ('in-band cell differs from the optimum', (i, j), exp, got)
    # -1 marks: only with psi_neg and end relaxation, a contiguous suffix of the last row or the last column within the psi range
    if neg:
        ok = bool(case.get('psi_neg', True)) and (psi[1] or psi[3])
        full_block = rb == 0 and cb == 0 and len(M) == r + 1 and len(M[0]) == c + 1
        if ok and not full_block:
            # a slice may cut the marked suffix: only membership in the relaxed part of the last row / column can be judged
            ok = all((i == r and psi[3] and j >= c - psi[3] + 1) or (j == c and psi[1] and i >= r - psi[1] + 1) for i, j in neg)
        elif ok:
            rows = set(i for i, j in neg)
            cols = set(j for i, j in neg)
            if rows == {r} and psi[3]:
                js = sorted(cols)
                ok = js[-1] == c and js == list(range(js[0], c + 1)) and c - (js[0] - 1) <= psi[3]
            elif cols == {c} and psi[1]:
                is_ = sorted(rows)
                ok = is_[-1] == r and is_ == list(range(is_[0], r + 1)) and r - (is_[0] - 1) <= psi[1]
            else:
                ok = False
        if not ok:
            bad = bad or ('-1 marks where the property does not permit them', neg[0], 'no -1', -1.0)
    acc.valid()
    if bad:
        t = tags_of(case, producer, 'cell')
        t['reason'] = bad[0]
        acc.violation('cell', producer, eng, t, dict(case, block=[rb, cb, len(M), len(M[0]) if M else 0]),
                      {'cell': bad[1], 'value': bad[2]}, {'cell': bad[1], 'value': bad[3]})
    return bool(neg)


def resolve_max_dist(case):
    """'tight' / 'mid' -> a threshold in a gap of this case's own cell values: just above the distance / in the middle of
    the cell values (never within rounding distance of a cell value)."""
    sym = case.get('max_dist')
    if sym not in ('tight', 'mid'):
        return case
    I, D, psi, _ = reference(dict(case, max_dist=None))
    r, c = len(case['s1']), len(case['s2'])
    d = oracles.cells_value(D, r, c, psi)
    vals = sorted(set(I.result(v) for v in D.values() if v < inf))
    if not vals:
        return dict(case, max_dist=None)
    gaps = [(a, b) for a, b in zip(vals, vals[1:]) if b - a > 1e-6 * max(1.0, b)]
    if sym == 'tight' and d < inf:
        dv = I.result(d)
        above = [b for a, b in gaps if a >= dv - 1e-12]
        m = (dv + above[0]) / 2.0 if above else dv + 0.75
    elif gaps:
        a, b = gaps[len(gaps) // 2]
        m = (a + b) / 2.0
    else:
        m = vals[-1] + 0.75
    return dict(case, max_dist=m)


def check_case(acc, E, case, slices=False):
    case = resolve_max_dist(case)
    I, D, psi, md = reference(case)
    r, c = len(case['s1']), len(case['s2'])
    keep = bool(case.get('keep_int_repr'))
    marked = False
    res_py = E.py_full(case)
    acc.trans()
    pyM = None
    prods = []
    if isinstance(res_py, core.Exc) or not isinstance(res_py, tuple):
        acc.violation('call', 'py.warping_paths', 'py', tags_of(case, 'py.warping_paths', 'call'), case, '(d, matrix)', repr(res_py))
    else:
        pyM = res_py[1].tolist()
        prods.append(('py.warping_paths', 'py', res_py[0], pyM))
    res_c = E.c_full(case)
    acc.trans()
    if isinstance(res_c, core.Exc):
        acc.violation('call', 'c.warping_paths_fast', 'c', tags_of(case, 'c.warping_paths_fast', 'call'), case, '(d, matrix)', repr(res_c))
    else:
        prods.append(('c.warping_paths_fast', 'c', res_c[0], res_c[1].tolist()))
    dC, wps, st = E.c_compact(case)
    acc.trans()
    prods.append(('c.compact+expand', 'c', dC, E.expand(wps, st, r, c)))
    for name, eng, d, M in prods:
        if len(M) != r + 1 or any(len(row) != c + 1 for row in M):
            acc.violation('shape', name, eng, tags_of(case, name, 'shape'), case, [r + 1, c + 1], [len(M), len(M[0]) if M else 0])
            continue
        if judge(acc, case, name, eng, d, M, 0, 0, I, D, psi, md, pyM if eng == 'c' else None):
            marked = True
        # returned distance == what the distance-only routine returns for the same settings
        only = E.dist_only(eng, case)
        acc.trans()
        acc.valid()
        dd = float(d)
        if keep and dd not in (inf, -1.0) and dd >= 0:
            dd = I.result(dd)
        tol = 1e-12 if (case['inner'] == 'eu' and case.get('ndim', 1) > 1) else 0.0
        if isinstance(only, core.Exc) or not core.ulp_close(dd, float(only), 4, tol):
            acc.violation('distance', name, eng, tags_of(case, name, 'distance'), case,
                          repr(only) if isinstance(only, core.Exc) else float(only), dd)
    if slices:
        for rb in range(0, r + 1):
            for re in range(rb + 1, r + 2):
                for cb in range(0, c + 1):
                    for ce in range(cb + 1, c + 2):
                        S = E.expand_slice(wps, st, r, c, rb, re, cb, ce)
                        acc.trans()
                        judge(acc, case, 'c.compact+slice', 'c', dC, S, rb, cb, I, D, psi, md, pyM)
    return marked


def universe(tier, seed, shard, nshards):
    A = univ.alphabet(univ.BASE3, seed)
    thorough = tier == 'thorough'
    sers = univ.series(A, 1, 4 if thorough else 3)
    idx = 0
    for s1 in sers:
        for s2 in sers:
            idx += 1
            if idx % nshards != shard:
                continue
            r, c = len(s1), len(s2)
            psis = [None, 1, (0, 1, 0, 1), (1, 0, 1, 0), (0, 0, 0, c), (0, r, 0, 0), (1, 1, 0, 0), (1, 0, 0, 0), (0, 0, 1, 0)]
            for w in (None, 1, 2):
                for pen in (None, 0.5):
                    for ms in (None, univ.max_step2(seed)):
                        for inner in ('sq', 'eu'):
                            for psi in psis:
                                if psi is not None:
                                    p = oracles.norm_psi(psi)
                                    if oracles.psi_degenerate(p, r, c) or max(p[:2]) > r or max(p[2:]) > c:
                                        continue
                                base = {'s1': s1, 's2': s2, 'window': w, 'penalty': pen, 'psi': psi, 'max_step': ms, 'inner': inner}
                                for md in (None, 1.6):
                                    yield 'U1-values', False, dict(base, max_dist=md, keep_int_repr=False, psi_neg=True)
                                    yield 'U1-values', False, dict(base, max_dist=md, keep_int_repr=True, psi_neg=False)
                                yield 'U1-values', False, dict(base, max_dist='tight', keep_int_repr=False, psi_neg=True)
                                if thorough:
                                    yield 'U1-values', False, dict(base, max_dist=0.9, keep_int_repr=True, psi_neg=True)
                                    yield 'U1-values', False, dict(base, max_dist=2.2, keep_int_repr=False, psi_neg=False)
    # shapes, all windows; with every slice for the small ones
    L = 7 if thorough else 5
    SL = 4 if thorough else 3
    cat = univ.CAT_PAIRS_THOROUGH if thorough else univ.CAT_PAIRS_QUICK
    for r in range(1, L + 1):
        for c in range(1, L + 1):
            for w in univ.windows(r, c, extra=1):
                idx += 1
                if idx % nshards != shard:
                    continue
                do_slices = max(r, c) <= SL + 1 and min(r, c) <= SL
                if max(r, c) <= 3 and not do_slices:
                    continue
                for psi in (None, 1, (0, 1, 0, 1), (1, 0, 1, 0), (0, 0, 0, c), (0, r, 0, 0), (0, 2, 0, 2)):
                    if psi is not None:
                        p = oracles.norm_psi(psi)
                        if oracles.psi_degenerate(p, r, c) or max(p[:2]) > r or max(p[2:]) > c:
                            continue
                    for (k1, k2) in (cat if not do_slices else cat[:3]):
                        for pen, ms, md in ((None, None, None), (0.5, None, None), (None, 1.2, None), (None, None, 2.2), (None, None, 'tight'), (0.5, None, 'mid')):
                            if do_slices and (ms or md):
                                continue
                            yield ('U2-slices' if do_slices else 'U3-shapes'), do_slices, {
                                's1': univ.catalogue(r, A, k1), 's2': univ.catalogue(c, A, k2), 'window': w, 'penalty': pen, 'psi': psi,
                                'max_step': ms, 'max_dist': md, 'inner': 'sq' if (k1 + k2) % 2 == 0 else 'eu',
                                'keep_int_repr': bool((k1 + r) % 2), 'psi_neg': True}
    # long thin bands: shapes up to 12 with narrow windows (where the compact layout has all four regions)
    top = 19 if thorough else 13
    for r in range(1, top):
        for c in range(1, top):
            if max(r, c) < 7:
                continue
            idx += 1
            if idx % nshards != shard:
                continue
            for w in ((1, 2, 3, 4, 5) if thorough else (1, 2, 3)):
                for psi in (None, 1, (0, 0, 0, 2), (0, 2, 0, 0), (2, 0, 0, 0), (0, 0, 2, 0)) + \
                        (((5, 0, 0, 0), (0, 0, 5, 0), (0, 5, 0, 0), (0, 0, 0, 5), (3, 3, 3, 3), (0, r, 0, 0), (0, 0, 0, c)) if thorough else ()):
                    if psi is not None:
                        p = oracles.norm_psi(psi)
                        if oracles.psi_degenerate(p, r, c) or max(p[:2]) > r or max(p[2:]) > c:
                            continue
                    for (k1, k2) in ((0, 3), (5, 0)):
                        for pen, md in ((None, None), (0.5, None), (None, 'tight')):
                            yield 'U5-long', False, {'s1': univ.catalogue(r, A, k1), 's2': univ.catalogue(c, A, k2), 'window': w, 'penalty': pen, 'psi': psi,
                                                     'max_step': None, 'max_dist': md, 'inner': 'sq' if (r + c) % 2 else 'eu', 'keep_int_repr': bool(r % 2), 'psi_neg': True}
    # multivariate
    A2 = univ.alphabet(univ.BASE2, seed)
    sers2 = univ.series_nd(A2, 2, 1, 2)
    for s1 in sers2:
        for s2 in sers2:
            idx += 1
            if idx % nshards != shard:
                continue
            r, c = len(s1), len(s2)
            for w in (None, 1):
                for pen in (None, 0.5):
                    for inner in ('sq', 'eu'):
                        for psi in (None, 1, (0, 1, 0, 0), (0, 0, 0, 1)):
                            if psi is not None:
                                p = oracles.norm_psi(psi)
                                if oracles.psi_degenerate(p, r, c) or max(p[:2]) > r or max(p[2:]) > c:
                                    continue
                            yield 'U4-ndim', False, {'s1': s1, 's2': s2, 'ndim': 2, 'window': w, 'penalty': pen, 'psi': psi, 'inner': inner,
                                                     'keep_int_repr': False, 'psi_neg': True}


def worker(acc, shard, nshards, tier, seed):
    E = Eng()
    for sub, slices, case in universe(tier, seed, shard, nshards):
        core.crumb(case)
        marked = check_case(acc, E, case, slices)
        r, c = len(case['s1']), len(case['s2'])
        w = case.get('window')
        acc.case(sub, nontrivial=bool(marked or (w and w < max(r, c))))
        if not acc.samples or acc.states % 20011 == 1:
            acc.sample(case)


def run(ctx):
    snap = build.snapshot_ext()
    build.activate(snap)
    clib.build_libdd(asserts=False)
    acc = core.run_sharded(worker, extra=(ctx.tier, ctx.seed))
    return core.finish(
        PROP, ctx.tier, ctx.seed, acc,
        rule='every case x producers {Python warping_paths, C full matrix, C compact+expand, C compact + every slice (small shapes)}; every cell compared with the reference '
             'table of per-cell optima under the freedoms C04 names; returned distance compared with the distance-only routine; non-trivial = band excludes cells or -1 marks present',
        bounds={'alphabet': list(univ.alphabet(univ.BASE3, ctx.seed)),
                'U1': 'all pairs len 1..3 (1..4 in thorough) x window{None,1,2} x penalty x max_step x inner x 9 psi forms x max_dist{None,1.6,tight = in the gap just above the distance%s} x (keep_int_repr,psi_neg) in {(F,T),(T,F)}' % (',0.9,2.2' if ctx.thorough else ''),
                'U2': 'shapes up to %dx%d: every slice [rb:re, cb:ce] of the full matrix, every window, 7 psi forms' % ((5, 4) if ctx.thorough else (4, 3)),
                'U3': 'all shapes up to %d x every window x catalogue values' % (7 if ctx.thorough else 5),
                'U4': 'ndim 2, len 1..2', 'U5': 'long thin bands: every shape up to %s with max >= 7, windows %s, %d psi forms' % (('18x18', '1..5', 13) if ctx.thorough else ('12x12', '1..3', 6))},
        assumptions=['row 0 / column 0 of the matrix (virtual start cells) are not described by C04 and not judged; a wrong start cell shows in the in-band cells it feeds',
                     'cells whose optimum is within 1e-9 relative of max_dist are not judged'],
        t0=ctx.t0)


def replay(ctx, rec):
    snap = build.snapshot_ext()
    build.activate(snap)
    v = rec.get('first', rec)
    case = core.unjson(v['case'])
    blk = case.pop('block', None)
    tup = lambda s: tuple(tuple(p) if isinstance(p, list) else p for p in s)
    case['s1'] = tup(case['s1']); case['s2'] = tup(case['s2'])
    E = Eng()
    acc = core.Acc()
    check_case(acc, E, case, slices=(v.get('api') == 'c.compact+slice'))
    seen = set()
    for x in acc.viol:
        k = (x['check'], x['api'])
        if k in seen:
            continue
        seen.add(k)
        print('  ', x['check'], x['api'], x['tags'].get('reason'), 'expected', x['expected'], 'observed', x['observed'])
    if acc.nviol:
        print('VIOLATION property=%s replay=-' % PROP)
        return 1
    print('no violation')
    return 0
