"""C20 - calls are pure: inputs untouched, results independent of container representation and of history."""
import array
import copy
import itertools

from .. import build, core, univ
from ..core import inf

PROP = 'C20'


def canon(x):
    """Nested plain-python image of a result (floats rounded to be comparable across engines)."""
    try:
        import numpy as np
    except ImportError:
        np = None
    if isinstance(x, dict):
        return tuple(sorted((canon(k), canon(v)) for k, v in x.items()))
    if isinstance(x, (set, frozenset)):
        return tuple(sorted(canon(v) for v in x))
    if np is not None and isinstance(x, np.ma.MaskedArray):
        return canon(x.filled(float('nan')).tolist())
    if np is not None and isinstance(x, (np.ndarray, np.generic)):
        return canon(x.tolist())
    if isinstance(x, array.array):
        return canon(list(x))
    if isinstance(x, (list, tuple)):
        return tuple(canon(v) for v in x)
    if isinstance(x, float):
        return x
    if isinstance(x, int):
        return float(x) if not isinstance(x, bool) else x
    return repr(x) if not isinstance(x, (str, type(None))) else x


def same(a, b, tol=1e-12):
    if isinstance(a, tuple) and isinstance(b, tuple):
        return len(a) == len(b) and all(same(x, y, tol) for x, y in zip(a, b))
    if isinstance(a, float) and isinstance(b, float):
        if a != a and b != b:
            return True
        return a == b or core.ulp_close(a, b, 4, tol)
    return a == b


# ---------------------------------------------------------------- containers with guard zones

class Boxed:
    """One series (1-D or 2-D) or one collection in a given representation, with a way to detect any change."""

    def __init__(self, np, value, kind, poison):
        self.kind = kind
        self.np = np
        self.base = None
        v = value
        if kind == 'list':
            self.obj = [list(p) if isinstance(p, tuple) else p for p in v]
        elif kind == 'tuple':
            self.obj = tuple(v)
        elif kind == 'array':
            self.obj = array.array('d', v)
        else:
            a = np.array(v, dtype=float)
            if kind == 'ndarray':
                self.base = np.full((a.size + 8,), poison)
                self.base[4:4 + a.size] = a.ravel()
                self.obj = self.base[4:4 + a.size].reshape(a.shape)
            elif kind == 'strided':
                self.base = np.full((2 * a.shape[0] + 3,) + a.shape[1:], poison)
                self.base[1:1 + 2 * a.shape[0]:2] = a
                self.obj = self.base[1:1 + 2 * a.shape[0]:2]
            elif kind == 'reversed':
                self.base = np.full((a.shape[0] + 4,) + a.shape[1:], poison)
                self.base[2:2 + a.shape[0]] = a[::-1]
                self.obj = self.base[2:2 + a.shape[0]][::-1]
            elif kind == 'fortran':
                self.base = np.asfortranarray(np.full((a.shape[0] + 2,) + a.shape[1:], poison))
                self.base[1:1 + a.shape[0]] = a
                self.obj = self.base[1:1 + a.shape[0]]
            elif kind == 'transposed':
                self.base = np.full(a.T.shape[:1] + (a.T.shape[1] + 2,) + a.T.shape[2:], poison) if a.ndim == 2 else None
                self.base[:, 1:1 + a.shape[0]] = a.T
                self.obj = self.base[:, 1:1 + a.shape[0]].T
            elif kind == 'fcontig':
                # exactly Fortran-contiguous (F_CONTIGUOUS and not C_CONTIGUOUS for >= 2 dims), guard zones before and after
                self.base = np.full((a.size + 8,), poison)
                self.base[4:4 + a.size] = a.ravel(order='F')
                self.obj = self.base[4:4 + a.size].reshape(a.shape[::-1]).T
                assert self.obj.shape == a.shape and (a.ndim < 2 or min(a.shape) < 2 or (self.obj.flags.f_contiguous and not self.obj.flags.c_contiguous))
            elif kind == 'row':
                self.base = np.full((3, a.shape[0] + 2), poison)
                self.base[1, 1:1 + a.shape[0]] = a
                self.obj = self.base[1, 1:1 + a.shape[0]]
            elif kind == 'readonly':
                self.base = a.copy()
                self.obj = self.base
                self.obj.flags.writeable = False
            else:
                raise KeyError(kind)
        self.snap = self.image()

    def image(self):
        if self.base is not None:
            return self.base.tobytes() + repr(self.base.shape).encode()
        if isinstance(self.obj, array.array):
            return self.obj.tobytes()
        return repr(self.obj).encode()

    def unchanged(self):
        return self.image() == self.snap


KINDS_1D_PY = ('list', 'tuple', 'array', 'ndarray', 'strided', 'reversed', 'row', 'readonly')
KINDS_1D_C = ('array', 'ndarray', 'strided', 'reversed', 'row')
KINDS_2D = ('ndarray', 'strided', 'reversed', 'fortran', 'transposed', 'fcontig')


def catalogue(E):
    """(name, engine, arity kind, callable(objs) -> result). objs are the boxed representations' .obj."""
    np, dtw, dtw_ndim, ed = E['np'], E['dtw'], E['dtw_ndim'], E['ed']
    bc = E['bc']
    kw = {'window': 2, 'penalty': 0.5, 'psi': 1}
    cat = []
    P = 'pair1d'
    cat += [
        ('dtw.distance', 'py', P, lambda a, b: dtw.distance(a, b, **kw)),
        ('dtw.distance(plain)', 'py', P, lambda a, b: dtw.distance(a, b)),
        ('dtw.distance(use_pruning)', 'py', P, lambda a, b: dtw.distance(a, b, use_pruning=True)),
        ('dtw.lb_keogh', 'py', P, lambda a, b: dtw.lb_keogh(a, b, window=2)),
        ('dtw.ub_euclidean', 'py', P, lambda a, b: dtw.ub_euclidean(a, b)),
        ('ed.distance', 'py', P, lambda a, b: ed.distance(a, b)),
        ('dtw.warping_paths', 'py', P, lambda a, b: dtw.warping_paths(a, b, **kw)),
        ('dtw.warping_path', 'py', P, lambda a, b: dtw.warping_path(a, b, **kw)),
        ('dtw.warp', 'py', P, lambda a, b: dtw.warp(a, b, window=2)),
        ('dtw.distance_fast', 'c', P, lambda a, b: dtw.distance_fast(a, b, **kw)),
        ('dtw.distance(use_c)', 'c', P, lambda a, b: dtw.distance(a, b, use_c=True, **kw)),
        ('dtw.distance_fast(use_pruning)', 'c', P, lambda a, b: dtw.distance_fast(a, b, use_pruning=True)),
        ('dtw.lb_keogh(use_c)', 'c', P, lambda a, b: dtw.lb_keogh(a, b, window=2, use_c=True)),
        ('ed.distance_fast', 'c', P, lambda a, b: ed.distance_fast(a, b)),
        ('dtw.warping_paths_fast', 'c', P, lambda a, b: dtw.warping_paths_fast(a, b, **kw)),
        ('dtw.warping_paths_fast(compact)', 'c', P, lambda a, b: dtw.warping_paths_fast(a, b, compact=True, **kw)),
        ('dtw.warping_path_fast', 'c', P, lambda a, b: dtw.warping_path_fast(a, b, **kw)),
        ('dtw.warping_paths_affinity', 'py', P, lambda a, b: dtw.warping_paths_affinity(a, b, window=2, penalty=0.1, tau=0.3, delta=-0.5, delta_factor=0.5)),
        ('dtw.warping_paths_affinity_fast', 'c', P, lambda a, b: dtw.warping_paths_affinity_fast(a, b, window=2, penalty=0.1, tau=0.3, delta=-0.5, delta_factor=0.5)),
    ]
    Q = 'pair2d'
    cat += [
        ('dtw_ndim.distance', 'py', Q, lambda a, b: dtw_ndim.distance(a, b, **kw)),
        ('dtw_ndim.distance_fast', 'c', Q, lambda a, b: dtw_ndim.distance_fast(a, b, **kw)),
        ('dtw_ndim.warping_paths', 'py', Q, lambda a, b: dtw_ndim.warping_paths(a, b, window=2)),
        ('dtw_ndim.warping_paths_fast', 'c', Q, lambda a, b: dtw_ndim.warping_paths_fast(a, b, window=2)),
        ('dtw_ndim.ub_euclidean', 'py', Q, lambda a, b: dtw_ndim.ub_euclidean(a, b)),
        ('ed_cc.distance_ndim', 'c', Q, lambda a, b: ed.ed_cc.distance_ndim(a, b)),
    ]
    return cat


def setup_env():
    import numpy as np
    from dtaidistance import dtw, dtw_ndim, ed, dtw_barycenter
    return {'np': np, 'dtw': dtw, 'dtw_ndim': dtw_ndim, 'ed': ed, 'bc': dtw_barycenter}


def run_call(acc, E, name, eng, fn, values, kinds, base_res):
    """Call fn on the boxed representations with two poison values; judge purity, poison-independence, repeatability, canonical result."""
    np = E['np']
    results = []
    for poison in (777.0, -555.5):
        boxes = [Boxed(np, v, k, poison) for v, k in zip(values, kinds)]
        r1 = core.call(fn, *[b.obj for b in boxes])
        r2 = core.call(fn, *[b.obj for b in boxes])
        acc.trans(2)
        case = {'api': name, 'values': values, 'containers': list(kinds)}
        tags = {'api': name, 'containers': '+'.join(kinds), 'noncanonical': any(k not in ('list',) for k in kinds)}
        if isinstance(r1, core.Exc):
            if r1.refusal:
                acc.refused += 1
                return
            acc.valid()
            acc.violation('container', name, eng, dict(tags, what='exception'), case, 'same result as on plain lists', repr(r1))
            return
        acc.valid()
        for b in boxes:
            if not b.unchanged():
                acc.violation('purity', name, eng, dict(tags, what='input modified'), case, 'inputs (and their guard zones) untouched', 'input buffer %s changed' % b.kind)
                return
        c1, c2 = canon(r1), (canon(r2) if not isinstance(r2, core.Exc) else repr(r2))
        if not same(c1, c2):
            acc.violation('repeat', name, eng, dict(tags, what='repeat'), case, c1, c2)
            return
        results.append(c1)
    if len(results) == 2 and not same(results[0], results[1]):
        acc.violation('purity', name, eng, dict(tags, what='result depends on memory outside the series'), case, results[0], results[1])
        return
    if base_res is not None and results and not same(results[0], base_res):
        acc.violation('container', name, eng, dict(tags, what='container'), case, base_res, results[0])


def pair_values(seed):
    A = univ.alphabet(univ.BASE3, seed)
    a0, a1, a2 = A
    pairs1 = [((a0, a1, a2, a1), (a1, a2, a0)), ((a2, a0, a0), (a0, a2, a1, a1, a0)), ((a1, a1), (a1, a1)), ((a0, a2, a1, a2, a0), (a2, a1, a0, a0, a1))]
    B = univ.alphabet(univ.BASE2, seed)
    b0, b1 = B
    pairs2 = [(((b0, b1), (b1, b1), (b0, b0)), ((b1, b0), (b0, b1))), (((b1, b1), (b0, b1)), ((b0, b0), (b1, b1), (b1, b0), (b0, b1)))]
    return pairs1, pairs2


def pair_jobs(seed):
    pairs1, pairs2 = pair_values(seed)
    jobs = []
    for vals in pairs1:
        for k1 in KINDS_1D_PY:
            for k2 in KINDS_1D_PY:
                jobs.append(('pair1d', vals, (k1, k2)))
    for vals in pairs2:
        for k1 in KINDS_2D:
            for k2 in KINDS_2D:
                jobs.append(('pair2d', vals, (k1, k2)))
    return jobs


# ---------------------------------------------------------------- collections

def coll_forms(np, util, values, nd, poison):
    """name -> (object, list of Boxed for change detection)."""
    forms = {}
    lens = set(len(s) for s in values)
    if nd == 1:
        forms['list_of_lists'] = ([list(s) for s in values], [])
        b = [Boxed(np, s, 'ndarray', poison) for s in values]
        forms['list_of_ndarray'] = ([x.obj for x in b], b)
        b = [Boxed(np, s, 'strided', poison) for s in values]
        forms['list_of_strided'] = ([x.obj for x in b], b)
        b = [Boxed(np, s, 'array', poison) for s in values]
        forms['list_of_array'] = ([x.obj for x in b], b)
        b = [Boxed(np, s, 'ndarray', poison) for s in values]
        forms['tuple_of_ndarray'] = (tuple(x.obj for x in b), b)
        b = [Boxed(np, s, 'ndarray', poison) for s in values]
        forms['SeriesContainer'] = (util.SeriesContainer([x.obj for x in b]), b)
        if len(lens) == 1:
            for k in ('ndarray', 'strided', 'fortran', 'transposed', 'fcontig'):
                bb = Boxed(np, values, k, poison)
                forms['matrix_' + k] = (bb.obj, [bb])
    else:
        b = [Boxed(np, s, 'ndarray', poison) for s in values]
        forms['list_of_ndarray2d'] = ([x.obj for x in b], b)
        b = [Boxed(np, s, 'fortran', poison) for s in values]
        forms['list_of_fortran2d'] = ([x.obj for x in b], b)
        b = [Boxed(np, s, 'fcontig', poison) for s in values]
        forms['list_of_fcontig2d'] = ([x.obj for x in b], b)
        if len(lens) == 1:
            for k in ('ndarray', 'strided', 'fortran', 'fcontig'):
                bb = Boxed(np, values, k, poison)
                forms['array3d_' + k] = (bb.obj, [bb])
    return forms


def coll_catalogue(E):
    np, dtw, dtw_ndim, bc = E['np'], E['dtw'], E['dtw_ndim'], E['bc']
    from dtaidistance.clustering import hierarchical as hier
    from dtaidistance.subsequence.subsequencesearch import subsequence_search

    def hfit(s, use_c):
        m = hier.Hierarchical(dtw.distance_matrix, {'use_c': use_c}, show_progress=False)
        return m.fit(s)

    def kmfit(s, use_c):
        from dtaidistance.clustering import kmeans as km
        import random
        np.random.seed(5)
        random.seed(5)
        model = km.KMeans(k=2, max_it=3, max_dba_it=2, drop_stddev=None, initialize_with_kmeanspp=False, dists_options={'use_c': use_c, 'window': 2}, show_progress=False)
        cl, it = model.fit(s, use_parallel=False)
        return (sorted((int(k), sorted(int(i) for i in v)) for k, v in cl.items()), [[float(x) for x in m] for m in model.means])

    def search(s, use_c):
        ss = subsequence_search(np.array(s[0], dtype=float), s, use_c=use_c)
        return [(m.distance, m.idx) for m in ss.kbest_matches(k=2)]

    cat = [
        ('dtw.distance_matrix', 'py', 1, lambda s: dtw.distance_matrix(s, window=2, compact=True)),
        ('dtw.distance_matrix(square)', 'py', 1, lambda s: dtw.distance_matrix(s, block=((0, 2), (1, 3)))),
        ('dtw.distance_matrix(use_c)', 'c', 1, lambda s: dtw.distance_matrix(s, window=2, compact=True, use_c=True)),
        ('dtw.distance_matrix_fast', 'c', 1, lambda s: dtw.distance_matrix_fast(s, window=2, compact=True)),
        ('dba', 'py', 1, lambda s: bc.dba(s, np.array(s[0], dtype=float).copy(), use_c=False)),
        ('dba_loop', 'py', 1, lambda s: bc.dba_loop(s, c=None, max_it=2, use_c=False)),
        ('dba_loop(use_c)', 'c', 1, lambda s: bc.dba_loop(s, c=None, max_it=2, use_c=True)),
        ('dba_loop(thr=None)', 'py', 1, lambda s: bc.dba_loop(s, c=None, max_it=2, thr=None, use_c=False)),
        ('dba_loop(use_c,thr=None)', 'c', 1, lambda s: bc.dba_loop(s, c=None, max_it=2, thr=None, use_c=True)),
        ('dba_loop(use_c,c=s[1],thr=None)', 'c', 1, lambda s: bc.dba_loop(s, c=s[1], max_it=2, thr=None, use_c=True)),
        ('dba_loop(use_c,keep_averages)', 'c', 1, lambda s: bc.dba_loop(s, c=None, max_it=2, thr=None, keep_averages=True, use_c=True)),
        ('dba_loop(c=s[1],window,penalty)', 'py', 1, lambda s: bc.dba_loop(s, c=s[1], max_it=2, thr=None, use_c=False, window=2, penalty=0.5)),
        ('dba_loop(use_c,mask)', 'c', 1, lambda s: bc.dba_loop(s, c=None, max_it=2, mask=np.array([True, False] + [True] * (len(s) - 2)), use_c=True)),
        ('dba(use_c)', 'c', 1, lambda s: bc.dba(s, np.array(s[0], dtype=float).copy(), use_c=True)),
        ('dba(use_c,mask)', 'c', 1, lambda s: bc.dba(s, np.array(s[1], dtype=float).copy(), mask=np.array([True] * (len(s) - 1) + [False]), use_c=True)),
        ('KMeans.fit', 'py', 1, lambda s: kmfit(s, False)),
        ('KMeans.fit(use_c)', 'c', 1, lambda s: kmfit(s, True)),
        ('Hierarchical.fit', 'py', 1, lambda s: hfit(s, False)),
        ('Hierarchical.fit(use_c)', 'c', 1, lambda s: hfit(s, True)),
        ('subsequence_search', 'py', 1, lambda s: search(s, False)),
        ('dtw_ndim.distance_matrix', 'py', 2, lambda s: dtw_ndim.distance_matrix(s, compact=True)),
        ('dtw_ndim.distance_matrix(use_c)', 'c', 2, lambda s: dtw_ndim.distance_matrix(s, compact=True, use_c=True)),
        ('dba_loop(ndim)', 'py', 2, lambda s: bc.dba_loop(s, c=None, max_it=2, use_c=False)),
        ('dba_loop(ndim,use_c)', 'c', 2, lambda s: bc.dba_loop(s, c=None, max_it=2, use_c=True)),
        ('dba_loop(ndim,use_c,thr=None)', 'c', 2, lambda s: bc.dba_loop(s, c=None, max_it=2, thr=None, use_c=True)),
        ('dba_loop(ndim,use_c,c=s[1],thr=None)', 'c', 2, lambda s: bc.dba_loop(s, c=s[1], max_it=2, thr=None, use_c=True)),
    ]
    return cat


def coll_values(seed):
    A = univ.alphabet(univ.BASE3, seed)
    a0, a1, a2 = A
    B = univ.alphabet(univ.BASE2, seed)
    b0, b1 = B
    c1 = [((a0, a1, a2), (a2, a1, a0), (a0, a0, a1), (a1, a2, a2)), ((a0, a1), (a2, a1, a0, a0), (a1,), (a0, a2, a1))]
    c2 = [(((b0, b1), (b1, b1)), ((b1, b0), (b0, b0)), ((b0, b0), (b0, b1))), (((b0, b1),), ((b1, b0), (b0, b0), (b1, b1)), ((b1, b1), (b0, b1)))]
    return c1, c2


def run_coll(acc, E, name, eng, nd, fn, values, fname, base_res):
    np = E['np']
    from dtaidistance import util
    results = []
    case = {'api': name, 'values': values, 'container': fname}
    tags = {'api': name, 'containers': fname, 'noncanonical': fname != 'list_of_lists'}
    for poison in (777.0, -555.5):
        forms = coll_forms(np, util, values, nd, poison)
        if fname not in forms:
            return
        obj, boxes = forms[fname]
        lsnap = copy.deepcopy(obj) if fname == 'list_of_lists' else None
        members = [id(x) for x in obj] if isinstance(obj, (list, tuple)) else None     # the caller's container must keep its elements
        r1 = core.call(fn, obj)
        acc.trans()
        if members is not None and not isinstance(r1, core.Exc) and [id(x) for x in obj] != members:
            acc.valid()
            acc.violation('purity', name, eng, dict(tags, what='container elements replaced'), case, 'the list given by the caller still holds the same series objects',
                          'elements of the caller\'s list were replaced by other objects')
            return
        if isinstance(r1, core.Exc):
            if r1.refusal or (eng == 'c' and fname == 'list_of_lists'):
                acc.refused += 1
                return
            acc.valid()
            acc.violation('container', name, eng, dict(tags, what='exception'), case, 'same result as on the canonical container', repr(r1))
            return
        acc.valid()
        if any(not b.unchanged() for b in boxes) or (lsnap is not None and lsnap != obj):
            acc.violation('purity', name, eng, dict(tags, what='input modified'), case, 'inputs untouched', 'a series of the collection changed')
            return
        r2 = core.call(fn, obj)
        acc.trans()
        c1, c2 = canon(r1), (canon(r2) if not isinstance(r2, core.Exc) else repr(r2))
        if not same(c1, c2):
            acc.violation('repeat', name, eng, dict(tags, what='repeat'), case, c1, c2)
            return
        results.append(c1)
    if len(results) == 2 and not same(results[0], results[1]):
        acc.violation('purity', name, eng, dict(tags, what='result depends on memory outside the series'), case, results[0], results[1])
        return
    if base_res is not None and results and not same(results[0], base_res):
        acc.violation('container', name, eng, dict(tags, what='container'), case, base_res, results[0])


# ---------------------------------------------------------------- histories on shared objects

def hist_ops(E):
    np, dtw, bc = E['np'], E['dtw'], E['bc']
    from dtaidistance.clustering import hierarchical as hier
    from dtaidistance.subsequence.subsequencealignment import subsequence_alignment
    from dtaidistance.subsequence.localconcurrences import local_concurrences
    ops = {
        'dist_py': lambda S, a, b: dtw.distance(a, b, window=2),
        'dist_c': lambda S, a, b: dtw.distance_fast(a, b, window=2, psi=1),
        'wps_c': lambda S, a, b: dtw.warping_paths_fast(a, b, window=2),
        'path_c': lambda S, a, b: dtw.warping_path_fast(a, b),
        'dm_c': lambda S, a, b: dtw.distance_matrix(S, compact=True, use_c=True),
        'dm_py': lambda S, a, b: dtw.distance_matrix(S, compact=True),
        'dba_c': lambda S, a, b: bc.dba_loop(S, c=S[0], max_it=2, use_c=True),
        'dba_py': lambda S, a, b: bc.dba_loop(S, c=S[0], max_it=2, use_c=False),
        'dba1_c': lambda S, a, b: bc.dba(S, S[0], use_c=True),
        'hier_c': lambda S, a, b: hier.Hierarchical(dtw.distance_matrix, {'use_c': True}, show_progress=False).fit(S),
        'sa_c': lambda S, a, b: subsequence_alignment(a, b, use_c=True).matching_function(),
        'lc_c': lambda S, a, b: [m.path for m in local_concurrences(a, b, use_c=True).kbest_matches(k=1)],
        'lc_py': lambda S, a, b: [m.path for m in local_concurrences(a, b).kbest_matches(k=1)],
    }
    return ops


def fresh_objects(E, seed, scform):
    np = E['np']
    from dtaidistance import util
    c1, _ = coll_values(seed)
    vals = c1[0]
    boxes = [Boxed(np, s, 'ndarray', 123.0) for s in vals]
    lst = [b.obj for b in boxes]
    S = util.SeriesContainer(lst) if scform == 'SeriesContainer' else (lst if scform == 'list' else np.array(vals, dtype=float))
    extra = []
    if scform == 'matrix':
        bb = Boxed(np, vals, 'ndarray', 123.0)
        S = bb.obj
        extra = [bb]
        return S, S[0], S[1], [bb]
    return S, lst[0], lst[1], boxes + extra


def check_histories(acc, E, seed, scform, depth, shard, nshards):
    ops = hist_ops(E)
    names = sorted(ops)
    iso = {}
    for n in names:
        S, a, b, boxes = fresh_objects(E, seed, scform)
        iso[n] = core.call(ops[n], S, a, b)
        if isinstance(iso[n], core.Exc) and shard == 0:
            acc.violation('history', 'shared objects', 'c', {'what': 'history', 'container': scform, 'last': n, 'depth': 0},
                          {'history': [n], 'container': scform}, 'a result in isolation', repr(iso[n]))
        iso[n] = iso[n] if isinstance(iso[n], core.Exc) else canon(iso[n])
    idx = 0
    for d in range(1, depth + 1):
        for hist in itertools.product(names, repeat=d):
            if d >= 3 and len(set(hist)) < 2:
                continue
            idx += 1
            if idx % nshards != shard:
                continue
            S, a, b, boxes = fresh_objects(E, seed, scform)
            bad = None
            for n in hist:
                r = core.call(ops[n], S, a, b)
                acc.trans()
                r = r if isinstance(r, core.Exc) else canon(r)
                exp = iso[n]
                if isinstance(exp, core.Exc):
                    continue
                if isinstance(r, core.Exc) or not same(r, exp):
                    bad = '%s in history returned %r, in isolation %r' % (n, r if not isinstance(r, core.Exc) else repr(r), exp)
                    break
            if bad is None and any(not bx.unchanged() for bx in boxes):
                bad = 'a shared input series was modified'
            acc.valid()
            acc.case('histories-' + scform, nontrivial=d >= 2)
            if bad:
                acc.violation('history', 'shared objects', 'c', {'what': 'history', 'container': scform, 'last': hist[-1], 'depth': d},
                              {'history': list(hist), 'container': scform}, 'same results as in isolation, inputs untouched', bad)


# ---------------------------------------------------------------- histories on shared model / settings objects

def model_kinds(E, seed):
    """(name, factory() -> state, ops{name: fn(state)}) - each op returns a plain value; state holds the shared objects."""
    np, dtw, bc = E['np'], E['dtw'], E['bc']
    from dtaidistance.clustering import hierarchical as hier
    from dtaidistance.clustering import kmeans as km
    from dtaidistance.subsequence.subsequencealignment import subsequence_alignment
    from dtaidistance.subsequence.subsequencesearch import subsequence_search
    from dtaidistance.subsequence.localconcurrences import local_concurrences
    A = univ.alphabet(univ.BASE3, seed)
    a0, a1, a2 = A
    query = np.array([a0, a1, a2])
    cands = [np.array(x) for x in ([a0, a1, a0], [a0, a1, a1], [a1, a0, a1], [a1, a1, a2], [a0, a1, a2], [a1, a0, a1, a0])]   # pairwise distinct distances (asserted)
    long_ = np.array([a1, a0, a1, a2, a1, a0, a2, a0, a0, a1, a2])
    coll = [np.array(x) for x in ([a0, a1, a1], [a1, a1, a2], [a0, a0, a1], [a2, a2, a1], [a2, a1, a2])]
    coll2 = [np.array(x) for x in ([a2, a1], [a0, a0, a1], [a2, a2, a1], [a0, a1])]
    kinds = []
    dd = sorted(float(dtw.distance(query, c)) for c in cands)
    assert all(b - a > 1e-9 for a, b in zip(dd, dd[1:])), ('candidate distances must be pairwise distinct', dd)

    def matches(ms):
        return [(int(m.idx), float(m.distance)) for m in ms]

    def add_kinds(use_c):
        # (a function, not a loop body: the operations below close over use_c)
        for md in (None, 1.2 * abs(a1 - a0)):
            def f_search(use_c=use_c, md=md):
                return {'o': subsequence_search(query, cands, max_dist=md, use_lb=True, use_c=use_c)}
            ops = {'k1': lambda st: matches(st['o'].kbest_matches(1)), 'k2': lambda st: matches(st['o'].kbest_matches(2)),
                   'kall': lambda st: matches(st['o'].kbest_matches(None)), 'best': lambda st: matches([st['o'].best_match()]),
                   'k3fast': lambda st: matches(st['o'].kbest_matches_fast(3))}
            kinds.append(('SubsequenceSearch(%s,max_dist=%s)' % ('c' if use_c else 'py', 'set' if md else 'None'), f_search, ops))

        def f_align(use_c=use_c):
            return {'o': subsequence_alignment(query, long_, use_c=use_c)}
        seg = lambda ms: [(tuple(int(v) for v in m.segment), float(m.value)) for m in ms]
        kinds.append(('SubsequenceAlignment(%s)' % ('c' if use_c else 'py'), f_align,
                      {'best': lambda st: seg([st['o'].best_match()]), 'k2': lambda st: seg(st['o'].kbest_matches(2)),
                       'k3': lambda st: seg(st['o'].kbest_matches(3, overlap=1)), 'mf': lambda st: st['o'].matching_function(),
                       'path': lambda st: [tuple(p) for p in st['o'].best_match().path]}))

        def f_lc(use_c=use_c):
            lc = local_concurrences(long_, None, gamma=1, tau=0.5, delta=-0.5, delta_factor=0.5, use_c=use_c)
            return {'o': lc}
        kinds.append(('LocalConcurrences(%s)' % ('c' if use_c else 'py'), f_lc,
                      {'k1': lambda st: [[tuple(int(v) for v in q) for q in m.path] for m in st['o'].kbest_matches(k=1, minlen=2, buffer=(0 if use_c else 1))],
                       'k2': lambda st: [[tuple(int(v) for v in q) for q in m.path] for m in st['o'].kbest_matches(k=2, minlen=2, buffer=(0 if use_c else 1))]}))   # (the wp property exposes the working matrix with the consumed cells marked: state, not a result)

        def f_hier(use_c=use_c):
            return {'o': hier.Hierarchical(dtw.distance_matrix, {'use_c': use_c, 'window': 2}, show_progress=False)}
        kinds.append(('Hierarchical(%s)' % ('c' if use_c else 'py'), f_hier,
                      {'fit5': lambda st: st['o'].fit(coll), 'fit4': lambda st: st['o'].fit(coll2),
                       'fit5md': lambda st: _with_maxdist(st['o'], 2.0 * abs(a1 - a0), coll),
                       'tree5': lambda st: canon(hier.HierarchicalTree(st['o']).fit(coll)),
                       'tree4': lambda st: canon(hier.HierarchicalTree(st['o']).fit(coll2))}))

        def f_km(use_c=use_c):
            return {'o': km.KMeans(k=2, max_it=3, max_dba_it=2, drop_stddev=None, dists_options={'use_c': use_c, 'window': 2}, show_progress=False)}

        def kfit(st, S):
            np.random.seed(3)
            import random
            random.seed(3)
            cl, it = st['o'].fit(S, use_parallel=False)
            return (sorted((int(k), sorted(int(i) for i in v)) for k, v in cl.items()), [list(map(float, m)) for m in st['o'].means], int(it))
        kinds.append(('KMeans(%s)' % ('c' if use_c else 'py'), f_km,
                      {'fit5': lambda st: kfit(st, coll), 'fit4': lambda st: kfit(st, coll2)}))

        # one settings dictionary shared by several consumers
        def f_opts(use_c=use_c):
            return {'opts': {'window': 2, 'use_c': use_c}}
        kinds.append(('shared settings dict(%s)' % ('c' if use_c else 'py'), f_opts,
                      {'dm': lambda st: dtw.distance_matrix(coll, compact=True, **st['opts']),
                       'dm_square': lambda st: dtw.distance_matrix(coll, **st['opts']),
                       'dist': lambda st: dtw.distance(coll[0], coll[3], **st['opts']),
                       'hier': lambda st: hier.Hierarchical(dtw.distance_matrix, st['opts'], show_progress=False).fit(coll),
                       'hier_md': lambda st: hier.Hierarchical(dtw.distance_matrix, st['opts'], max_dist=2.0 * abs(a1 - a0), show_progress=False).fit(coll),
                       'search': lambda st: matches(subsequence_search(query, cands, dists_options=dict_without(st['opts'], 'use_c'), use_c=use_c).kbest_matches(2)),
                       'search_shared': lambda st: matches(subsequence_search(query, cands, dists_options=st['opts'], use_c=use_c, max_dist=1.2 * abs(a1 - a0)).kbest_matches(2)),
                       'kmeans': lambda st: (np.random.seed(3), km.KMeans(k=2, max_it=2, max_dba_it=2, drop_stddev=None, dists_options=st['opts'], show_progress=False).fit(coll, use_parallel=False)[0])[1]}))
    for uc in (False, True):
        add_kinds(uc)
    # one psi LIST shared by calls on series of different lengths (Python engine; the relaxation exceeds the short series)
    pa = np.array([a0, a1, a2, a1, a0, a1])
    pb = np.array([a1, a0, a1])
    py_ = np.array([a2, a2, a2, a2, a0, a1, a2, a1, a0, a1])
    kinds.append(('shared psi list(py)', lambda: {'opts': {'psi': [0, 0, 4, 4]}},
                  {'short': lambda st: dtw.distance(pa, pb, **st['opts']), 'long': lambda st: dtw.distance(pa, py_, **st['opts']),
                   'wps_long': lambda st: dtw.warping_paths(pa, py_, **st['opts'])[0]}))     # (warping_paths refuses a relaxation beyond the series length: not an operation of this kind)
    inputs = [query, long_, pa, pb, py_] + cands + coll + coll2
    return kinds, inputs


def dict_without(d, k):
    d = dict(d)
    d.pop(k, None)
    return d


def _with_maxdist(model, md, S):
    old = model.max_dist
    model.max_dist = md
    try:
        return model.fit(S)
    finally:
        model.max_dist = old


def check_model_histories(acc, E, seed, depth, shard, nshards):
    np = E['np']
    kinds, inputs = model_kinds(E, seed)
    snap = [x.tobytes() for x in inputs]
    idx = 0
    for kname, factory, ops in kinds:
        names = sorted(ops)
        iso = {}
        for n in names:
            r = core.call(ops[n], factory())
            iso[n] = r if isinstance(r, core.Exc) else canon(r)
            if isinstance(r, core.Exc) and shard == 0:
                # an operation of the catalogue must work on a fresh object, otherwise its histories would be compared vacuously
                acc.violation('history', kname.split('(')[0], 'c' if '(c' in kname else 'py', {'what': 'model history', 'model': kname, 'last': n, 'depth': 0},
                              {'model': kname, 'history': [n]}, 'a result on a fresh object', repr(r))
        for d in range(1, depth + 1):
            for hist in itertools.product(names, repeat=d):
                idx += 1
                if idx % nshards != shard:
                    continue
                core.crumb({'model': kname, 'history': list(hist)})
                st = factory()
                bad = None
                for n in hist:
                    r = core.call(ops[n], st)
                    acc.trans()
                    r = r if isinstance(r, core.Exc) else canon(r)
                    exp = iso[n]
                    if isinstance(exp, core.Exc):
                        if not isinstance(r, core.Exc):
                            bad = '%s raised %r on a fresh object but returned a value in this history' % (n, exp)
                            break
                        continue
                    if isinstance(r, core.Exc) or not same(r, exp):
                        bad = '%s in history returned %s, on a fresh object %s' % (n, repr(r)[:300], repr(exp)[:300])
                        break
                if bad is None and [x.tobytes() for x in inputs] != snap:
                    bad = 'a shared input series was modified'
                acc.valid()
                acc.case('model-histories', nontrivial=d >= 2)
                if bad:
                    acc.violation('history', kname.split('(')[0], 'c' if '(c' in kname else 'py',
                                  {'what': 'model history', 'model': kname, 'last': hist[-1], 'depth': len(hist)},
                                  {'model': kname, 'history': list(hist)}, 'same results as on a fresh object; settings and inputs untouched', bad)
                    if [x.tobytes() for x in inputs] != snap:
                        return


# ---------------------------------------------------------------- NumPy absent

def child_nonumpy(args):
    snap = build.snapshot_py()
    build.activate(snap)
    from dtaidistance import dtw, ed
    assert dtw.np is None
    acc = core.Acc()
    pairs1, _ = pair_values(args['seed'])
    c1, _ = coll_values(args['seed'])
    fns = [('dtw.distance', lambda a, b: dtw.distance(a, b, window=2, penalty=0.5, psi=1)), ('dtw.distance(use_pruning)', lambda a, b: dtw.distance(a, b, use_pruning=True)),
           ('dtw.lb_keogh', lambda a, b: dtw.lb_keogh(a, b, window=2)), ('dtw.ub_euclidean', lambda a, b: dtw.ub_euclidean(a, b)), ('ed.distance', lambda a, b: ed.distance(a, b))]
    out = {}
    for vi, vals in enumerate(pairs1):
        for name, fn in fns:
            for k1 in ('list', 'tuple', 'array'):
                for k2 in ('list', 'tuple', 'array'):
                    objs = [list(v) if k == 'list' else (tuple(v) if k == 'tuple' else array.array('d', v)) for v, k in zip(vals, (k1, k2))]
                    snap_ = [bytes(o) if isinstance(o, array.array) else repr(o) for o in objs]
                    r = core.call(fn, *objs)
                    acc.trans()
                    acc.valid()
                    acc.case('no-numpy', nontrivial=(k1, k2) != ('list', 'list'))
                    case = {'api': name, 'values': vals, 'containers': [k1, k2], 'numpy': False}
                    if isinstance(r, core.Exc) and not r.refusal:
                        acc.violation('container', name, 'py', {'api': name, 'containers': k1 + '+' + k2, 'numpy': False, 'what': 'exception'}, case, 'a result', repr(r))
                        continue
                    if [bytes(o) if isinstance(o, array.array) else repr(o) for o in objs] != snap_:
                        acc.violation('purity', name, 'py', {'api': name, 'containers': k1 + '+' + k2, 'numpy': False, 'what': 'input modified'}, case, 'inputs untouched', 'changed')
                    out['%s|%d|%s|%s' % (name, vi, k1, k2)] = None if isinstance(r, core.Exc) else float(r)
    for ci, coll in enumerate(c1):
        for k in ('list', 'array'):
            objs = [list(s) if k == 'list' else array.array('d', s) for s in coll]
            r = core.call(dtw.distance_matrix, objs, compact=True, window=2)
            acc.trans()
            acc.valid()
            acc.case('no-numpy', nontrivial=True)
            if isinstance(r, core.Exc) and not r.refusal:
                acc.violation('container', 'dtw.distance_matrix', 'py', {'api': 'dtw.distance_matrix', 'containers': k, 'numpy': False, 'what': 'exception'},
                              {'api': 'dtw.distance_matrix', 'values': coll, 'numpy': False}, 'a result', repr(r))
            out['dm|%d|%s' % (ci, k)] = None if isinstance(r, core.Exc) else [float(x) for x in r]
    acc.extra['nonumpy_results'] = out
    return acc


def worker(acc, shard, nshards, tier, seed):
    E = setup_env()
    np = E['np']
    assert E['dtw'].dtw_cc is not None
    cat = catalogue(E)
    jobs = pair_jobs(seed)
    k = 0
    base_cache = {}
    for kindname, vals, kinds in jobs:
        for name, eng, arity, fn in cat:
            if arity != kindname:
                continue
            if eng == 'c' and kindname == 'pair1d' and any(x not in KINDS_1D_C for x in kinds):
                continue   # the C entry points document array buffers as input
            if name == 'ed_cc.distance_ndim' and any(x != 'ndarray' for x in kinds):
                continue   # low-level extension function: documents C-contiguous input
            k += 1
            if k % nshards != shard:
                continue
            key = (name, vals)
            if key not in base_cache:
                pyname = name
                base = None
                canon_kinds = ('list', 'list') if kindname == 'pair1d' else ('ndarray', 'ndarray')
                if eng == 'c' and kindname == 'pair1d':
                    canon_kinds = ('array', 'array')
                boxes = [Boxed(np, v, kk, 1.0) for v, kk in zip(vals, canon_kinds)]
                r = core.call(fn, *[b.obj for b in boxes])
                base_cache[key] = None if isinstance(r, core.Exc) else canon(r)
                if isinstance(r, core.Exc):
                    # every catalogue routine must work on its canonical containers, otherwise nothing is compared for it
                    acc.violation('container', name, eng, {'api': name, 'containers': '+'.join(canon_kinds), 'what': 'canonical form fails'},
                                  {'api': name, 'values': vals, 'containers': list(canon_kinds)}, 'a result on the canonical containers', repr(r))
            core.crumb({'api': name, 'values': vals, 'containers': kinds})
            run_call(acc, E, name, eng, fn, vals, kinds, base_cache[key])
            acc.case('pair-' + kindname, nontrivial=any(x not in ('list', 'array') for x in kinds))
            if not acc.samples:
                acc.sample({'api': name, 'values': vals, 'containers': kinds})
    # engine independence of the canonical results for the pair routines that exist in both engines
    if shard == 0:
        both = [('dtw.distance', 'dtw.distance_fast'), ('dtw.lb_keogh', 'dtw.lb_keogh(use_c)'), ('ed.distance', 'ed.distance_fast'), ('dtw.warping_paths', 'dtw.warping_paths_fast'),
                ('dtw.distance(use_pruning)', 'dtw.distance_fast(use_pruning)'), ('dtw.warping_paths_affinity', 'dtw.warping_paths_affinity_fast')]
        byname = dict((c[0], c) for c in cat)
        for vals in pair_values(seed)[0]:
            for p, c in both:
                rp = core.call(byname[p][3], list(vals[0]), list(vals[1]))
                rc = core.call(byname[c][3], array.array('d', vals[0]), array.array('d', vals[1]))
                acc.trans(2)
                acc.valid()
                if isinstance(rp, core.Exc) or isinstance(rc, core.Exc) or not same(canon(rp), canon(rc)):
                    acc.violation('container', c, 'c', {'api': c, 'what': 'engine', 'containers': 'array'}, {'api': c, 'values': vals}, repr(rp)[:300], repr(rc)[:300])
    # collections
    ccat = coll_catalogue(E)
    c1, c2 = coll_values(seed)
    from dtaidistance import util
    for nd, colls in ((1, c1), (2, c2)):
        for vals in colls:
            forms = list(coll_forms(np, util, vals, nd, 0.0))
            for name, eng, cnd, fn in ccat:
                if cnd != nd:
                    continue
                canon_form = 'list_of_ndarray' if nd == 1 else 'list_of_ndarray2d'
                obj, _ = coll_forms(np, util, vals, nd, 1.0)[canon_form]
                rb = core.call(fn, obj)
                base = None if isinstance(rb, core.Exc) else canon(rb)
                if isinstance(rb, core.Exc) and shard == 0:
                    acc.violation('container', name, eng, {'api': name, 'containers': canon_form, 'what': 'canonical form fails'},
                                  {'api': name, 'values': vals, 'container': canon_form}, 'a result on the canonical container', repr(rb))
                for fname in forms:
                    k += 1
                    if k % nshards != shard:
                        continue
                    core.crumb({'api': name, 'values': vals, 'container': fname})
                    run_coll(acc, E, name, eng, nd, fn, vals, fname, base)
                    acc.case('collection-%dd' % nd, nontrivial=fname not in ('list_of_lists', 'list_of_ndarray'))
    depth = 3
    for scform in ('list', 'SeriesContainer', 'matrix'):
        check_histories(acc, E, seed, scform, (4 if scform == 'list' else depth) if tier == 'thorough' else (depth if scform != 'matrix' else 2), shard, nshards)
    check_model_histories(acc, E, seed, 4 if tier == 'thorough' else 3, shard, nshards)


def run(ctx):
    snap = build.snapshot_ext()
    build.activate(snap)
    acc = core.run_sharded(worker, extra=(ctx.tier, ctx.seed))
    acc2 = core.run_child('c20', 'child_nonumpy', {'VERIF_BLOCK_NUMPY': '1', 'DTAIDISTANCE_TESTWITHOUTNUMPY': '1'}, {'tier': ctx.tier, 'seed': ctx.seed})
    nn = acc2.extra.pop('nonumpy_results', {})
    acc.merge(acc2)
    # results without NumPy equal the results with NumPy (same canonical inputs)
    from dtaidistance import dtw, ed
    fns = {'dtw.distance': lambda a, b: dtw.distance(a, b, window=2, penalty=0.5, psi=1), 'dtw.distance(use_pruning)': lambda a, b: dtw.distance(a, b, use_pruning=True),
           'dtw.lb_keogh': lambda a, b: dtw.lb_keogh(a, b, window=2), 'dtw.ub_euclidean': lambda a, b: dtw.ub_euclidean(a, b), 'ed.distance': lambda a, b: ed.distance(a, b)}
    pairs1, _ = pair_values(ctx.seed)
    c1, _ = coll_values(ctx.seed)
    for key, val in sorted(nn.items()):
        parts = key.split('|')
        if parts[0] == 'dm':
            exp = [float(x) for x in dtw.distance_matrix([list(s) for s in c1[int(parts[1])]], compact=True, window=2)]
            ok = val is not None and len(val) == len(exp) and all(core.ulp_close(a, b, 4) for a, b in zip(val, exp))
        else:
            vals = pairs1[int(parts[1])]
            exp = float(fns[parts[0]](list(vals[0]), list(vals[1])))
            ok = val is not None and core.ulp_close(val, exp, 4)
        acc.validated += 1
        if not ok:
            acc.violation('container', parts[0], 'py', {'api': parts[0], 'numpy': False, 'what': 'numpy absent'}, {'key': key}, exp, val)
    return core.finish(
        PROP, ctx.tier, ctx.seed, acc,
        rule='every API of a catalogue (25 pair-level, 26 collection-level routines incl. the single C averaging step, serial k-means with a fixed seed and the option variants of the averaging loop (thr=None, keep_averages, explicit initial average taken from the collection, mask), both engines) x every combination of container representations for its series arguments '
             '(list, tuple, array.array, ndarray contiguous / strided / reversed / row of a matrix / Fortran-ordered slices / transposed views / exactly F-contiguous / read-only; list/tuple of arrays, strided rows, SeriesContainer, 2-D and 3-D arrays in C, strided and Fortran order); '
             'each array lives in a larger poisoned buffer (two poison values); every call is judged for untouched inputs and guard zones, independence of the poison, repeatability and equality with the canonical representation; '
             'histories: every sequence up to depth 3 of 13 routines sharing the same series objects; every sequence up to depth 3 of the operations of one shared model object (SubsequenceSearch with/without max_dist, SubsequenceAlignment, LocalConcurrences, Hierarchical incl. HierarchicalTree wrappers and a changed max_dist, KMeans with a fixed random seed) and of consumers of one shared settings dictionary, in both engines, each step compared with the same operation on a fresh object; NumPy absent: the NumPy-free routines in a NumPy-less interpreter; non-trivial = non-canonical container or history length >= 2',
        bounds={'values': '4 univariate and 2 bivariate series pairs, 2+2 collections (equal and unequal lengths)', 'history_containers': 'list, SeriesContainer, 2-D matrix (depth 2 in quick)', 'history_depth': 'quick 3; thorough 4 for shared series in a list and for model / settings objects'},
        assumptions=['lists/tuples into the *_fast entry points and read-only arrays into the C engine are outside the container list of C20 (documented requirement: arrays of doubles) and not generated / counted as refused',
                     'dtw_cc.dba called directly updates its argument c by design; purity of the series is still demanded',
                     'results are compared as nested python values with 4 ulp / 1e-12 tolerance'],
        t0=ctx.t0)


def replay(ctx, rec):
    print('re-run ./check C20; case: %r' % (rec.get('first', rec).get('case'),))
    return 1
