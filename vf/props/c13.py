"""C13 - subsequence alignment: matching function = best DTW over all start points; best match and k-best iterator.

E1: all (query, series) pairs x penalties x iterator arguments, both engines, against brute force over start points.
E2: breadth-first exploration of operation histories on one live alignment object (two interleaved iterators,
    reset, align, best_match) with a fresh-object differential oracle.
"""
import itertools

from .. import build, core, oracles, univ
from ..core import inf

PROP = 'C13'
TOL = 1e-12


def close(a, b):
    return core.ulp_close(float(a), float(b), 8, TOL)


_STARTS = {}


def ref_matching(query, series, penalty, nd):
    """matching[e] = min_b DTW(query, series[b..e], penalty) / len(query), by brute force over b.
    Also records, per end e, every start b that attains the minimum (ref_starts)."""
    out = []
    starts = []
    for e in range(len(series)):
        ds = [oracles.dtw_ref(query, series[b:e + 1], penalty=penalty, ndim=nd > 1) for b in range(e + 1)]
        best = min(ds)
        out.append(best / len(query))
        starts.append([b for b, d in enumerate(ds) if d == best or core.ulp_close(d, best, 8, TOL)])
    if len(_STARTS) > 64:
        _STARTS.clear()
    _STARTS[(repr(query), repr(series), penalty, nd)] = starts
    return out


def ref_starts(query, series, penalty, nd):
    key = (repr(query), repr(series), penalty, nd)
    if key not in _STARTS:
        ref_matching(query, series, penalty, nd)
    return _STARTS[key]


class Eng:
    def __init__(self):
        import numpy as np
        from dtaidistance.subsequence.subsequencealignment import subsequence_alignment, SubsequenceAlignment
        from dtaidistance import dtw
        self.np = np
        self.sa = subsequence_alignment
        self.SA = SubsequenceAlignment
        assert dtw.dtw_cc is not None

    def make(self, query, series, penalty, use_c):
        np = self.np
        return self.sa(np.array(query, dtype=float), np.array(series, dtype=float), penalty=penalty, use_c=use_c)


def match_info(m):
    seg = m.segment
    return (int(m.idx), (int(seg[0]), int(seg[1])), float(m.value), [(int(i), int(j)) for i, j in m.path])


def check_match(acc, case, eng, info, query, series, penalty, nd, ref, what):
    """A reported match realises its value: valid path over its segment, cost == value * len(query)."""
    idx, seg, value, path = info
    r = len(query)
    I = oracles.inner_of('squared euclidean', nd > 1)
    P = oracles.pd_matrix(query, series, I.pd)
    pen = I.ival(penalty) if penalty else 0.0
    why = None
    if not close(value, ref[idx]):
        why = 'value %r != reference matching value %r at end %d' % (value, ref[idx], idx)
    elif seg[1] != idx:
        why = 'segment end %r != end position %d' % (seg[1], idx)
    elif not path or path[0][0] != 0 or path[-1] != (r - 1, idx):
        why = 'path does not run from the first query row to (last row, end): %r' % (path,)
    elif seg[0] != path[0][1]:
        why = 'segment start %r != first column of the path %r' % (seg[0], path[0][1])
    else:
        for k in range(1, len(path)):
            di, dj = path[k][0] - path[k - 1][0], path[k][1] - path[k - 1][1]
            if (di, dj) not in ((1, 1), (1, 0), (0, 1)):
                why = 'illegal step in path %r' % (path,)
                break
        if why is None:
            cost = I.result(oracles.path_cost(path, P, pen)) / r
            if not close(cost, value):
                why = 'cost of the path / len(query) = %r != value %r' % (cost, value)
    acc.valid()
    if why:
        acc.violation(what, 'SAMatch', eng, dict(tags_of(case), what=what), case, 'a match realising the matching value', {'match': [idx, seg, value, path], 'why': why})


def tags_of(case):
    return {'ndim': case.get('ndim', 1), 'penalty_on': bool(case.get('penalty')), 'len_query': len(case['query']), 'len_series': len(case['series'])}


def kbest_list(sa, args):
    return [match_info(m) for m in sa.kbest_matches(**args)]


def check_kbest(acc, case, eng, L, args, query, series, penalty, nd, ref):
    why = None
    ends = [x[0] for x in L]
    vals = [x[2] for x in L]
    if len(set(ends)) != len(ends):
        why = 'end points are not distinct: %r' % (ends,)
    elif any(vals[i] > vals[i + 1] + TOL for i in range(len(vals) - 1)):
        why = 'values are not non-decreasing: %r' % (vals,)
    elif args.get('k') is not None and len(L) > args['k']:
        why = 'more than k matches'
    else:
        for idx, seg, value, path in L:
            ln = seg[1] - seg[0] + 1
            if args.get('minlength') is not None and ln < args['minlength']:
                why = 'segment %r shorter than minlength' % (seg,)
            if args.get('maxlength') is not None and ln > args['maxlength']:
                why = 'segment %r longer than maxlength' % (seg,)
        if why is None and not args.get('overlap'):
            for a, b in itertools.combinations(L, 2):
                lo, hi = max(a[1][0], b[1][0]), min(a[1][1], b[1][1])
                if hi - lo + 1 > 1:
                    why = 'segments %r and %r share more than one sample with overlap=0' % (a[1], b[1])
    if why is None and not args.get('overlap'):
        # "k-best": an end position that no stated rule can exclude must be among the yielded matches.  An end e is
        # beyond doubt when (a) EVERY optimal start b gives a segment length inside the limits, (b) the widest of these
        # segments is disjoint from every yielded segment, and (c) the iteration ran dry (k=None or fewer than k matches)
        # or the value at e is strictly below the last yielded value.  Ends with any doubt (ties between starts of
        # different admissibility, touching segments, equal values) are not judged.
        starts = ref_starts(query, series, penalty, nd)
        mn, mx, k = args.get('minlength'), args.get('maxlength'), args.get('k')
        dry = k is None or len(L) < k
        lastv = vals[-1] if vals else inf
        for e in range(len(series)):
            if e in ends or ref[e] == inf:
                continue
            bs = starts[e]
            if any((mn is not None and e - b + 1 < mn) or (mx is not None and e - b + 1 > mx) for b in bs):
                continue
            lo = min(bs)
            if any(not (e < seg[0] or lo > seg[1]) for _, seg, _, _ in L):
                continue
            if dry or ref[e] < lastv - 1e-9:
                why = 'end %d (value %r, segment lengths %r within the limits, disjoint from every yielded segment) is missing from the %s' % (
                    e, ref[e], sorted(set(e - b + 1 for b in bs)), 'complete iteration' if dry else 'k best')
                break
    acc.valid()
    if why:
        acc.violation('kbest', 'kbest_matches', eng, dict(tags_of(case), what='kbest', overlap=bool(args.get('overlap'))), dict(case, args=args),
                      'distinct ends, sorted values, length limits, no overlap, no admissible disjoint end left out', {'matches': [[x[0], x[1], x[2]] for x in L], 'why': why})
    for info in L:
        check_match(acc, dict(case, args=args), eng, info, query, series, penalty, nd, ref, 'kbest_match')


ARGS = [dict(k=k, overlap=o, minlength=mn, maxlength=mx) for k in (1, 2, 3, None) for o in (0, 1) for mn in (1, 2) for mx in (None, 2, 3)]


def check_pair(acc, E, query, series, penalty, nd, args_list):
    case = {'query': query, 'series': series, 'penalty': penalty, 'ndim': nd}
    ref = ref_matching(query, series, penalty, nd)
    res = {}
    for eng, use_c in (('py', False), ('c', True)):
        sa = core.call(E.make, query, series, penalty, use_c)
        acc.trans()
        if isinstance(sa, core.Exc):
            acc.violation('call', 'subsequence_alignment', eng, dict(tags_of(case), what='call'), case, 'an alignment', repr(sa))
            continue
        mf = sa.matching_function()
        acc.valid()
        if mf is None or len(mf) != len(series) or not all(close(a, b) for a, b in zip(mf, ref)):
            acc.violation('matching', 'matching_function', eng, dict(tags_of(case), what='matching'), case, ref, None if mf is None else [float(x) for x in mf])
            continue
        bm = core.call(lambda: match_info(sa.best_match()))
        acc.trans()
        if isinstance(bm, core.Exc):
            acc.violation('best_match', 'best_match', eng, dict(tags_of(case), what='best_match'), case, 'a match', repr(bm))
        else:
            if not close(bm[2], min(ref)):
                acc.violation('best_match', 'best_match', eng, dict(tags_of(case), what='best_match'), case, min(ref), bm[2])
            check_match(acc, case, eng, bm, query, series, penalty, nd, ref, 'best_match')
        res[eng] = {}
        for args in args_list:
            L = core.call(kbest_list, sa, args)
            acc.trans()
            if isinstance(L, core.Exc):
                acc.valid()
                acc.violation('kbest', 'kbest_matches', eng, dict(tags_of(case), what='kbest_call'), dict(case, args=args), 'a list of matches', repr(L))
                continue
            res[eng][tuple(sorted(args.items(), key=str))] = L
            check_kbest(acc, case, eng, L, args, query, series, penalty, nd, ref)
    # engines agree: same end points and values; a difference may only start with a different (equally optimal) path
    if 'py' in res and 'c' in res:
        for key, Lp in res['py'].items():
            Lc = res['c'].get(key)
            if Lc is None:
                continue
            acc.valid()
            for k in range(max(len(Lp), len(Lc))):
                a = Lp[k] if k < len(Lp) else None
                b = Lc[k] if k < len(Lc) else None
                if a is None or b is None or a[0] != b[0] or not close(a[2], b[2]):
                    acc.violation('engines', 'kbest_matches', 'c', dict(tags_of(case), what='engines'), dict(case, args=dict(key)),
                                  [[x[0], x[1], x[2]] for x in Lp], [[x[0], x[1], x[2]] for x in Lc])
                    break
                if a[1] != b[1]:
                    break    # same end, same value, different optimal path: later masking may legitimately differ
    return ref


# ---------------------------------------------------------------- histories

OPS = ('A', 'M', 'B', 'N1', 'N2', 'R')


def run_history(E, query, series, penalty, use_c, hist, args1, args2):
    """Replay `hist` on a fresh object; returns the list of observations (one per op)."""
    sa = E.make(query, series, penalty, use_c)
    its = {}
    obs = []
    aligned = True
    for op in hist:
        if op == 'A':
            sa.align()
            aligned = True
            obs.append('ok')
        elif op == 'R':
            sa.reset()
            its.clear()      # iterators created before a reset are abandoned; iteration starts again afterwards
            aligned = False
            obs.append('ok')
        elif op == 'M':
            mf = sa.matching_function()
            obs.append(None if mf is None else tuple(round(float(x), 12) for x in mf))
        elif op == 'B':
            obs.append(match_info(sa.best_match())[:3])
        else:
            if op not in its:
                its[op] = sa.kbest_matches(**(args1 if op == 'N1' else args2))
            try:
                obs.append(match_info(next(its[op]))[:3])
            except StopIteration:
                obs.append('stop')
            aligned = True
    return obs


def admissible(hist):
    """After reset the object is unaligned: only align or an iterator step (which aligns) may follow before M/B."""
    aligned = True
    for op in hist:
        if op == 'R':
            aligned = False
        elif op in ('A', 'N1', 'N2'):
            aligned = True
        elif not aligned:
            return False
    return True


def check_histories(acc, E, query, series, penalty, args1, args2, depth):
    case0 = {'query': query, 'series': series, 'penalty': penalty, 'ndim': 1, 'args1': args1, 'args2': args2}
    for eng, use_c in (('py', False), ('c', True)):
        fresh = E.make(query, series, penalty, use_c)
        exp_mf = tuple(round(float(x), 12) for x in fresh.matching_function())
        exp_b = match_info(fresh.best_match())[:3]
        exp1 = [x[:3] for x in kbest_list(E.make(query, series, penalty, use_c), args1)]
        exp2 = [x[:3] for x in kbest_list(E.make(query, series, penalty, use_c), args2)]
        seen = set()
        frontier = [()]
        for d in range(depth):
            nxt = []
            for h in frontier:
                for op in OPS:
                    hist = h + (op,)
                    if not admissible(hist):
                        continue
                    obs = core.call(run_history, E, query, series, penalty, use_c, hist, args1, args2)
                    acc.trans(len(hist))
                    acc.valid()
                    bad = None
                    if isinstance(obs, core.Exc):
                        bad = repr(obs)
                    else:
                        n1 = n2 = 0
                        for op2, o in zip(hist, obs):
                            if op2 == 'R':
                                n1 = n2 = 0
                            if op2 == 'M' and o != exp_mf:
                                bad = 'matching_function differs from a fresh object'
                            elif op2 == 'B' and not (o[0] == exp_b[0] and o[1] == exp_b[1]):
                                bad = 'best_match %r differs from a fresh object %r' % (o, exp_b)
                            elif op2 in ('N1', 'N2'):
                                expl = exp1 if op2 == 'N1' else exp2
                                k = n1 if op2 == 'N1' else n2
                                want = expl[k] if k < len(expl) else 'stop'
                                if o != want and not (o != 'stop' and want != 'stop' and o[0] == want[0] and o[1] == want[1] and close(o[2], want[2])):
                                    bad = 'iterator %s step %d gave %r, a fresh iterator gives %r' % (op2, k, o, want)
                                if op2 == 'N1':
                                    n1 += 1
                                else:
                                    n2 += 1
                            if bad:
                                break
                    if bad:
                        acc.violation('history', 'SubsequenceAlignment', eng, {'what': 'history', 'ndim': 1, 'depth': len(hist)}, dict(case0, history=list(hist)),
                                      'same answers as a fresh object', bad)
                    acc.case('histories', nontrivial=len(hist) >= 2)
                    nxt.append(hist)
            frontier = nxt


def universe(tier, seed, shard, nshards):
    A = univ.alphabet(univ.BASE3, seed)
    thorough = tier == 'thorough'
    queries = univ.series(A, 1, 4 if thorough else 3)
    sers = univ.series(A, 1, 7 if thorough else 5)
    idx = 0
    for q in queries:
        for s in sers:
            idx += 1
            if idx % nshards != shard:
                continue
            if len(q) == 4 and len(s) > 5:
                continue
            for pen in (0, 0.5, 0.1):
                if len(s) <= (5 if thorough else 4):
                    args = ARGS
                else:
                    args = [a for a in ARGS if a['k'] in (2, None) and a['minlength'] == 2][:6] if (len(s) == 5 or pen == 0.5) else []
                yield 'U1-pairs', 1, q, s, pen, args
            # the None encoding of 'no penalty' must behave like 0 (seed C13h)
            yield 'U1-pairs', 1, q, s, None, [ARGS[0]]
    A2 = univ.alphabet(univ.BASE2, seed)
    q2 = univ.series_nd(A2, 2, 1, 2)
    s2 = univ.series_nd(A2, 2, 1, 3)
    for q in q2:
        for s in s2:
            idx += 1
            if idx % nshards != shard:
                continue
            for pen in (0, 0.5):
                yield 'U2-ndim', 2, q, s, pen, [ARGS[0], ARGS[13], ARGS[-1]]
            yield 'U2-ndim', 2, q, s, None, [ARGS[0]]


def hist_universe(tier, seed, shard, nshards):
    A = univ.alphabet(univ.BASE3, seed)
    a0, a1, a2 = A
    pairs = [((a1, a2, a0), (a1, a0, a1, a2, a1, a0, a2, a0)), ((a0, a1), (a0, a1, a0, a1, a0)), ((a2,), (a0, a2, a1, a2)),
             ((a0, a0, a1), (a0, a0, a1, a1, a0, a0, a1)), ((a1, a0), (a2, a1, a0, a0, a1, a0)), ((a0, a2, a0), (a0, a2, a0, a2, a0))]
    argpairs = [(dict(k=2, overlap=0, minlength=2, maxlength=None), dict(k=None, overlap=1, minlength=1, maxlength=3)),
                (dict(k=None, overlap=0, minlength=1, maxlength=None), dict(k=1, overlap=0, minlength=2, maxlength=2)),
                (dict(k=3, overlap=1, minlength=2, maxlength=None), dict(k=3, overlap=0, minlength=2, maxlength=None))]
    idx = 0
    for q, s in pairs:
        for a1_, a2_ in argpairs:
            for pen in (0.1, 0.5):
                idx += 1
                if idx % nshards != shard:
                    continue
                yield q, s, pen, a1_, a2_


def worker(acc, shard, nshards, tier, seed):
    E = Eng()
    for sub, nd, q, s, pen, args in universe(tier, seed, shard, nshards):
        ref = check_pair(acc, E, q, s, pen, nd, args)
        # non-trivial: for some end the best start is not e - len(q) + 1 (real warping)
        nt = False
        for e in range(len(s)):
            b = e - len(q) + 1
            if b < 0 or not close(oracles.dtw_ref(q, s[b:e + 1], penalty=pen, ndim=nd > 1) / len(q), ref[e]):
                nt = True
        acc.case(sub, nontrivial=nt)
        acc.outcome(tuple(round(x, 9) for x in ref[:3]))
        if not acc.samples or acc.states % 1009 == 1:
            acc.sample({'query': q, 'series': s, 'penalty': pen, 'ndim': nd})
    depth = 4 if tier == 'thorough' else 3
    for q, s, pen, a1_, a2_ in hist_universe(tier, seed, shard, nshards):
        check_histories(acc, E, q, s, pen, a1_, a2_, depth)


def run(ctx):
    snap = build.snapshot_ext()
    build.activate(snap)
    acc = core.run_sharded(worker, extra=(ctx.tier, ctx.seed))
    return core.finish(
        PROP, ctx.tier, ctx.seed, acc,
        rule='E1: every (query len 1..3 (4 in thorough, with series <= 5), series len 1..%d) pair over a 3-letter alphabet x penalty{0,.5,.1} x 48 iterator argument sets x both engines; E2: every operation history up to depth %d over '
             '{align, matching_function, best_match, next(iterator 1), next(iterator 2), reset} on one live object; non-trivial = real warping (best start differs from the rigid one) / history length >= 2'
             % (7 if ctx.thorough else 5, 4 if ctx.thorough else 3),
        bounds={'alphabet': list(univ.alphabet(univ.BASE3, ctx.seed)), 'kbest_args': 'k{1,2,3,None} x overlap{0,1} x minlength{1,2} x maxlength{None,2,3} (all 48 for series <= 4, 6 for longer)',
                'ndim': 'ndim 2: query len 1..2, series len 1..3', 'histories': '6 (query, series) pairs x 3 argument pairs x 2 penalties x 2 engines'},
        assumptions=['reference matching function = brute force over all start points with the reference DTW',
                     'engines must agree on end points and values of the k-best lists; after the first match whose (equally optimal) path differs between engines later masking may differ',
                     'after reset() the object is unaligned: matching_function/best_match are only explored after align() or an iterator step (which aligns); iterators created before a reset are abandoned (continuing them is outside repeated/interleaved iteration)'],
        t0=ctx.t0)


def replay(ctx, rec):
    snap = build.snapshot_ext()
    build.activate(snap)
    v = rec.get('first', rec)
    c = core.unjson(v['case'])
    tup = lambda s: tuple(tuple(p) if isinstance(p, list) else p for p in s)
    E = Eng()
    acc = core.Acc()
    if 'history' in c:
        check_histories(acc, E, tup(c['query']), tup(c['series']), c['penalty'], c['args1'], c['args2'], len(c['history']))
    else:
        check_pair(acc, E, tup(c['query']), tup(c['series']), c['penalty'], c.get('ndim', 1), [c['args']] if 'args' in c else ARGS)
    for x in acc.viol[:6]:
        print('  ', x['check'], x['api'], x['engine'], x['case'].get('args') or x['case'].get('history'), 'observed', x['observed'])
    if acc.nviol:
        print('VIOLATION property=%s replay=-' % PROP)
        return 1
    print('no violation')
    return 0
