"""C12 - one DBA update averages optimally aligned points and never worsens the fit; engines agree; loop bounded."""
import itertools

from .. import build, core, oracles, univ
from ..core import inf

PROP = 'C12'
TOL = 1e-9
COMBO_CAP = 4096


def close(a, b):
    return abs(a - b) <= 1e-12 * max(1.0, abs(a), abs(b))


def vec(x):
    return tuple(x) if isinstance(x, (tuple, list)) else (x,)


class Eng:
    def __init__(self):
        import numpy as np
        from dtaidistance import dtw_barycenter, dtw
        self.np, self.bc, self.dtw = np, dtw_barycenter, dtw
        assert dtw.dtw_cc is not None

    def data(self, coll, nd, container):
        np = self.np
        if container == 'matrix':
            return np.array(coll, dtype=float)
        return [np.array(s, dtype=float) for s in coll]

    def run(self, route, coll, c, mask, nd, kw, container):
        np, bc = self.np, self.bc
        s = self.data(coll, nd, container)
        c0 = np.array(c, dtype=float)
        m = np.array(mask, dtype=bool)
        if route == 'py.dba':
            return bc.dba(s, c0, mask=m, use_c=False, **kw)
        if route == 'py.dba(use_c)':
            return bc.dba(s, c0, mask=m, use_c=True, **kw)
        if route == 'c.dtw_cc.dba':
            cc = c0.copy()
            packed = np.packbits(m, bitorder='little')
            from dtaidistance.util import SeriesContainer
            sc = SeriesContainer.wrap(s)
            if nd == 1:
                self.dtw.dtw_cc.dba(sc, cc, mask=packed, nb_prob_samples=0, **kw)
            else:
                self.dtw.dtw_cc.dba_ndim(sc, cc, mask=packed, nb_prob_samples=0, ndim=nd, **kw)
            return cc
        raise KeyError(route)


def optimal_paths(c, s, kw, nd):
    I = oracles.inner_of('squared euclidean', nd > 1)
    P = oracles.pd_matrix(c, s, I.pd)
    pen = I.ival(kw['penalty']) if kw.get('penalty') else 0.0
    coll = []
    v, _ = oracles.paths_value(P, len(c), len(s), kw.get('window'), pen, (0, 0, 0, 0), inf, collect=coll)
    return v, coll


def mean_for(paths_choice, coll_sel, t, nd):
    """Average per position given one path per selected series."""
    sums = [[0.0] * nd for _ in range(t)]
    cnt = [0] * t
    for path, s in zip(paths_choice, coll_sel):
        for i, j in path:
            pv = vec(s[j])
            for d in range(nd):
                sums[i][d] += pv[d]
            cnt[i] += 1
    return [[sums[i][d] / cnt[i] for d in range(nd)] if cnt[i] else None for i in range(t)]


def check_update(acc, E, coll, c, mask, nd, kw, container, routes):
    t = len(c)
    sel = [s for s, m in zip(coll, mask) if m]
    case = {'series': coll, 'c': c, 'mask': mask, 'ndim': nd, 'settings': kw, 'container': container}
    tags = {'ndim': nd, 'window_on': bool(kw.get('window')), 'penalty_on': bool(kw.get('penalty')), 'strict_mask': not all(mask), 'container': container,
            'unequal': len(set(len(s) for s in coll)) > 1}
    per_series = [optimal_paths(c, s, kw, nd) for s in sel]
    if any(v == inf for v, _ in per_series):
        return False   # no admissible alignment under this window: outside C12
    sets = [ps for _, ps in per_series]
    ncombo = 1
    for ps in sets:
        ncombo *= len(ps)
    unique = ncombo == 1
    if ncombo > COMBO_CAP:
        acc.cap('optimal_path_combinations_cap')
        candidates = None
    else:
        candidates = [mean_for(ch, sel, t, nd) for ch in itertools.product(*sets)]
    lo = [min(vec(p)[d] for s in sel for p in s) for d in range(nd)]
    hi = [max(vec(p)[d] for s in sel for p in s) for d in range(nd)]
    before = sum(v for v, _ in per_series)
    results = {}
    for route in routes:
        core.crumb(dict(case, route=route))
        res = core.call(E.run, route, coll, c, mask, nd, kw, container)
        acc.trans()
        acc.valid()
        eng = route.split('.')[0]
        why = None
        if isinstance(res, core.Exc):
            if res.refusal:
                acc.refused += 1
                continue
            why = repr(res)
        else:
            try:
                R = [[float(x) for x in vec(row)] for row in (res.tolist() if hasattr(res, 'tolist') else list(res))]
            except Exception as e:  # noqa: BLE001
                R, why = None, 'unusable result %r' % (e,)
            if why is None and (len(R) != t or any(len(r) != nd for r in R)):
                why = 'result has shape %r, expected (%d,%d)' % ([len(R), len(R[0]) if R else 0], t, nd)
            if why is None:
                results[route] = R
                # (ii) value range
                for i in range(t):
                    for d in range(nd):
                        if not (lo[d] - TOL <= R[i][d] <= hi[d] + TOL):
                            why = why or 'position %d leaves the value range [%r,%r] of the selected series: %r' % (i, lo[d], hi[d], R[i][d])
                # (i) defining equation
                if why is None and candidates is not None:
                    ok = any(all(cm[i] is not None and all(close(cm[i][d], R[i][d]) for d in range(nd)) for i in range(t)) for cm in candidates)
                    if not ok:
                        why = 'result %r is not the mean of the points aligned by any combination of optimal paths (%d combinations)' % (R, ncombo)
                # (v) the fit does not get worse
                if why is None:
                    newc = [tuple(r) if nd > 1 else r[0] for r in R]
                    after = 0.0
                    for s in sel:
                        v, _ = optimal_paths(newc, s, kw, nd)
                        after += v
                    if after > before + 1e-9 * max(1.0, before):
                        why = 'sum of squared DTW distances increased from %r to %r' % (before, after)
        if why:
            acc.violation('update', route, eng, dict(tags, unique_paths=unique), dict(case, route=route), 'mean of optimally aligned points', why)
    # engines agree when optimal paths are unique
    if unique and len(results) > 1:
        base = results.get('py.dba')
        for route, R in results.items():
            if base is not None and route != 'py.dba':
                acc.valid()
                if not all(close(a, b) for ra, rb in zip(base, R) for a, b in zip(ra, rb)):
                    acc.violation('engines', route, 'c', dict(tags, unique_paths=True), dict(case, route=route), base, R)
    # (iii) identical series are a fixed point
    return any(len(ps) > 0 for ps in sets) and (not all(mask) or any(sum(1 for p in ch if p[0] == i) >= 2 for ps in sets for ch in ps for i in range(t)))


def check_unselected(acc, E, coll, c, mask, nd, kw, alpha, routes):
    """(iv) changing an unselected series leaves the result unchanged."""
    if all(mask):
        return
    for route in routes:
        base = core.call(E.run, route, coll, c, mask, nd, kw, 'list')
        if isinstance(base, core.Exc):
            continue
        for si, m in enumerate(mask):
            if m:
                continue
            for pos in range(len(coll[si])):
                for a in alpha:
                    newp = a if nd == 1 else tuple([a] * nd)
                    if coll[si][pos] == newp:
                        continue
                    coll2 = list(coll)
                    s2 = list(coll[si])
                    s2[pos] = newp
                    coll2[si] = tuple(s2)
                    got = core.call(E.run, route, tuple(coll2), c, mask, nd, kw, 'list')
                    acc.trans()
                    acc.valid()
                    if isinstance(got, core.Exc) or not (E.np.asarray(got).shape == E.np.asarray(base).shape and E.np.allclose(E.np.asarray(got), E.np.asarray(base), rtol=0, atol=1e-12)):
                        acc.violation('unselected', route, route.split('.')[0], {'ndim': nd, 'what': 'unselected'},
                                      {'series': coll, 'changed': [si, pos, newp], 'c': c, 'mask': mask, 'ndim': nd, 'settings': kw}, E.np.asarray(base).tolist(),
                                      repr(got) if isinstance(got, core.Exc) else E.np.asarray(got).tolist())
                        return


def check_loop(acc, E, coll, c, mask, nd, kw, use_c, max_it, thr):
    """(vi) dba_loop performs at most max_it update steps, does not modify c, stays in range; identical series are a fixed point;
    it ITERATES the step: the input of step i is the output of step i-1, the result is the output of the last step, and with
    keep_averages the kept list is exactly the sequence of step outputs."""
    np, bc = E.np, E.bc
    variants = [(keep, 'C') for keep in ((False, True) if max_it >= 2 else (False,))]
    if nd > 1 and len(c) > 1:
        variants.append((False, 'F'))       # a column-major initial average (seed C12g): same values, same answer
    for keep, layout in variants:
        s = [np.array(x, dtype=float) for x in coll]
        c0 = np.array(c, dtype=float)
        if layout == 'F':
            c0 = np.asfortranarray(c0)
        cbefore = c0.copy()
        calls = [0]
        ins, outs, exps = [], [], []
        if use_c:
            target, name = E.dtw.dtw_cc, ('dba' if nd == 1 else 'dba_ndim')
            orig = getattr(bc.dtw_cc, name)

            def wrap(*a, **k):
                calls[0] += 1
                ins.append(np.array(a[1], dtype=float).copy())
                e = np.array(a[1], dtype=float, order='C')           # the same step on a row-major copy of its input
                orig(a[0], e, *a[2:], **k)
                exps.append(e)
                r = orig(*a, **k)
                outs.append(np.array(a[1], dtype=float).copy())      # the C step updates its second argument in place
                return r
            setattr(bc.dtw_cc, name, wrap)
        else:
            orig = bc.dba

            def wrap(*a, **k):
                calls[0] += 1
                ins.append(np.array(a[1], dtype=float).copy())
                r = orig(*a, **k)
                outs.append(np.array(r, dtype=float).copy())
                return r
            bc.dba = wrap
        try:
            res = core.call(bc.dba_loop, s, c=c0, max_it=max_it, thr=thr, mask=np.array(mask, dtype=bool), use_c=use_c, keep_averages=keep, **kw)
        finally:
            if use_c:
                setattr(bc.dtw_cc, name, orig)
            else:
                bc.dba = orig
        acc.trans()
        acc.valid()
        case = {'series': coll, 'c': c, 'mask': mask, 'ndim': nd, 'settings': kw, 'use_c': use_c, 'max_it': max_it, 'thr': thr, 'keep_averages': keep, 'layout': layout}
        why = None
        kept = None
        if not isinstance(res, core.Exc) and keep:
            try:
                res, kept = res
            except (TypeError, ValueError):
                why = 'keep_averages=True did not return (average, list of averages): %r' % (res,)

        def same(x, y):
            x, y = np.asarray(x, dtype=float), np.asarray(y, dtype=float)
            return x.shape == y.shape and bool(np.all(x == y))
        if why is not None:
            pass
        elif isinstance(res, core.Exc):
            why = repr(res)
        elif calls[0] > max_it:
            why = '%d update steps, max_it=%d' % (calls[0], max_it)
        elif not np.array_equal(c0, cbefore):
            why = 'the initial average passed by the caller was modified'
        elif calls[0] and not same(ins[0], cbefore):
            why = 'the first step did not start from the given average: %r' % (ins[0].tolist(),)
        elif any(not same(ins[i], outs[i - 1]) for i in range(1, calls[0])):
            why = 'step %d did not start from the output of the previous step' % ([i for i in range(1, calls[0]) if not same(ins[i], outs[i - 1])][0],)
        elif any(not same(exps[i], outs[i]) for i in range(len(exps))):
            why = 'step %d: output %r differs from the same step on a row-major copy of its input %r' % (
                [i for i in range(len(exps)) if not same(exps[i], outs[i])][0], outs[0].tolist(), exps[0].tolist())
        elif calls[0] and not same(res, outs[-1]):
            why = 'the returned average %r is not the output of the last step %r' % (np.asarray(res).tolist(), outs[-1].tolist())
        elif kept is not None and (len(kept) != calls[0] or any(not same(kept[i], outs[i]) for i in range(calls[0]))):
            why = 'the kept averages %r are not the outputs of the successive steps %r' % ([np.asarray(k).tolist() for k in kept], [o.tolist() for o in outs])
        else:
            sel = [x for x, m in zip(coll, mask) if m]
            if len(set(sel)) == 1 and tuple(c) == sel[0]:
                if not np.allclose(np.asarray(res), np.array(c, dtype=float), rtol=0, atol=1e-12):
                    why = 'identical series are not a fixed point: %r' % (np.asarray(res).tolist(),)
        if why:
            acc.violation('loop', 'dba_loop', 'c' if use_c else 'py', {'ndim': nd, 'what': 'loop', 'max_it': max_it, 'keep_averages': keep}, case,
                          '<= max_it steps, c untouched, steps chained, kept averages = step outputs', why)


def masks(n):
    return [m for m in itertools.product((True, False), repeat=n) if any(m)]


def universe(tier, seed, shard, nshards):
    thorough = tier == 'thorough'
    A = univ.alphabet(univ.BASE3, seed)
    s3 = univ.series(A, 1, 3)
    s2 = univ.series(A, 1, 2)
    cs = univ.series(A, 1, 3 if thorough else 2) + ([(A[0], A[2], A[1]), (A[1], A[1], A[2])] if not thorough else [])
    idx = 0
    for n, pool in ((1, s3), (2, s3 if thorough else s2 + [(A[0], A[1], A[2]), (A[2], A[0], A[0])]), (3, s2 if thorough else univ.series(A, 1, 1) + [(A[0], A[2]), (A[1], A[1]), (A[2], A[0])])):
        for coll in itertools.product(pool, repeat=n):
            idx += 1
            if idx % nshards != shard:
                continue
            for c in cs:
                for mask in masks(n):
                    for w in (None, 1, 2):
                        for pen in (None, 0.5):
                            kw = {}
                            if w:
                                kw['window'] = w
                            if pen:
                                kw['penalty'] = pen
                            yield 'U1-1d-n%d' % n, 1, coll, c, mask, kw
    A2 = univ.alphabet(univ.BASE2, seed)
    p2 = univ.series_nd(A2, 2, 1, 2)
    for coll in itertools.product(p2, repeat=2):
        idx += 1
        if idx % nshards != shard:
            continue
        if idx % (1 if thorough else 3):
            continue
        for c in univ.series_nd(A2, 2, 1, 2)[::2]:
            for mask in masks(2):
                for w in (None, 1):
                    yield 'U2-ndim2', 2, coll, c, mask, ({'window': w} if w else {})
    # many series: the mask crosses the byte boundaries of the bit array handed to the C code (EVERY non-empty mask)
    for t in ((9, 10, 17) if thorough else (9, 10)):
        coll = tuple(((A[k % 3],) if k % 2 else (A[k % 3], A[(k + 1) % 3])) for k in range(t))
        allmasks = masks(t) if t <= 10 else [m for m in (tuple(bool((b >> i) & 1) for i in range(t)) for b in
                                                       [1 << i for i in range(t)] + [(1 << 8) | (1 << 16), (1 << 16) | 1, 0x1FF00, 0x10100, 0x1FFFF, 0x0FF01]) if any(m)]
        for mask in allmasks:
            idx += 1
            if idx % nshards != shard:
                continue
            for c in ((A[0],), (A[1], A[2])):
                yield 'U5-many-series', 1, coll, c, mask, {}


def worker(acc, shard, nshards, tier, seed):
    E = Eng()
    A = univ.alphabet(univ.BASE3, seed)
    k = 0
    for sub, nd, coll, c, mask, kw in universe(tier, seed, shard, nshards):
        k += 1
        routes = ('py.dba', 'py.dba(use_c)', 'c.dtw_cc.dba')
        container = 'matrix' if (len(set(len(s) for s in coll)) == 1 and k % 2 == 0) else 'list'
        nt = check_update(acc, E, coll, c, mask, nd, kw, container, routes)
        if k % 23 == 0:
            check_unselected(acc, E, coll, c, mask, nd, kw, A if nd == 1 else univ.alphabet(univ.BASE2, seed), routes)
        if k % 11 == 0:
            for use_c in (False, True):
                for max_it, thr in ((1, None), (2, 0), (3, 0.001), (3, None)):
                    check_loop(acc, E, coll, c, mask, nd, kw, use_c, max_it, thr)
        acc.case(sub, nontrivial=bool(nt))
        if not acc.samples or acc.states % 5003 == 1:
            acc.sample({'series': coll, 'c': c, 'mask': mask, 'settings': kw})


def run(ctx):
    snap = build.snapshot_ext()
    build.activate(snap)
    acc = core.run_sharded(worker, extra=(ctx.tier, ctx.seed))
    return core.finish(
        PROP, ctx.tier, ctx.seed, acc,
        rule='every collection of 1..3 short series (and, for the mask bit array, collections of 9, 10 (17) series of length 1-2 with EVERY non-empty mask) x initial average x non-empty mask x window{None,1,2} x penalty{None,.5} through dba (Python), dba(use_c) and dtw_cc.dba/_ndim: the result must be the '
             'per-position mean under SOME combination of optimal paths (all optimal paths enumerated explicitly), stay in the value range, not increase the sum of squared reference DTW distances; engines must agree when '
             'optimal paths are unique; every 23rd case: all single-symbol changes of unselected series; every 11th: dba_loop step count / c untouched / fixed point; non-trivial = a position receives >= 2 points or the mask is a strict subset',
        bounds={'alphabet': list(univ.alphabet(univ.BASE3, ctx.seed)), 'collections': 'n=1: lengths 1..3; n=2: lengths 1..%s; n=3: lengths 1..%s' % (('3', '2') if ctx.thorough else ('2 (+2 of length 3)', '1 (+3 of length 2)')),
                'averages': 'lengths 1..%d' % (3 if ctx.thorough else 2), 'ndim2': '2-vectors, lengths 1..2', 'combination_cap': COMBO_CAP},
        assumptions=['reference optimal paths by explicit path enumeration (vf/oracles.py)', 'windows that leave no admissible alignment between the average and a selected series are outside C12 and skipped',
                     'the probabilistic DBA (nb_prob_samples > 0) is not covered by C12\'s equations (memory safety of it is in C08)'],
        t0=ctx.t0)


def replay(ctx, rec):
    snap = build.snapshot_ext()
    build.activate(snap)
    v = rec.get('first', rec)
    c = core.unjson(v['case'])
    tup = lambda s: tuple(tuple(p) if isinstance(p, list) else p for p in s)
    E = Eng()
    acc = core.Acc()
    coll = tuple(tup(s) for s in c['series'])
    if 'max_it' in c:
        check_loop(acc, E, coll, tup(c['c']), tuple(c['mask']), c['ndim'], c['settings'], c['use_c'], c['max_it'], c['thr'])
    else:
        check_update(acc, E, coll, tup(c['c']), tuple(c['mask']), c['ndim'], c['settings'], c.get('container', 'list'), ('py.dba', 'py.dba(use_c)', 'c.dtw_cc.dba'))
    for x in acc.viol[:5]:
        print('  ', x['check'], x['api'], 'observed', x['observed'])
    if acc.nviol:
        print('VIOLATION property=%s replay=-' % PROP)
        return 1
    print('no violation')
    return 0
