"""C17 - Needleman-Wunsch returns the optimal score and a consistent alignment."""
import itertools

from .. import build, core
from ..core import inf

PROP = 'C17'
ALPHA = 'ABC'
GAPSYM = '-'


def scorings(al):
    """(name, kwargs for make_substitution_fn or None for the default)."""
    return [
        ('default', None),
        ('gap0.5', ({}, 0.5, 'max')),
        ('gap2', ({}, 2, 'max')),
        ('dict-max', ({('A', 'B'): 2, ('B', 'A'): 3, ('A', 'A'): 4, ('C', 'C'): 0.5}, 1, 'max')),
        ('dict-max-gap0.5', ({('A', 'B'): 2, ('B', 'C'): -1.5, ('A', 'A'): 4}, 0.5, 'max')),
        ('dict-min-gap2', ({('A', 'B'): 0.5, ('A', 'C'): 3, ('B', 'B'): -1}, 2, 'min')),
        # entries equal to zero, listed in one orientation only or with a different reversed entry
        ('dict-zero-max', ({('A', 'B'): 0, ('B', 'C'): 0.0, ('C', 'A'): 3, ('A', 'C'): 0, ('A', 'A'): 2}, 1, 'max')),
        ('dict-zero-min-gap0.5', ({('A', 'B'): 0, ('B', 'A'): 2, ('C', 'C'): 0, ('B', 'C'): -0.5}, 0.5, 'min')),
    ]


def model_fn(spec):
    """The documented meaning of a dictionary scoring, written independently of the library: cost of substituting a by b =
    matrix[(a,b)] if listed, else matrix[(b,a)] if listed, else the default (-1 match / +1 mismatch); with opt='max' the listed
    values are similarities (cost = -value).  Returns (cost, gap) like the library's substitution functions."""
    if spec is None:
        return lambda a, b: ((-1.0 if a == b else 1.0), 1)
    matrix, gap, opt = spec
    sign = -1.0 if opt == 'max' else 1.0

    def f(a, b):
        if (a, b) in matrix:
            return sign * matrix[(a, b)], gap
        if (b, a) in matrix:
            return sign * matrix[(b, a)], gap
        return (-1.0 if a == b else 1.0), gap
    return f


def all_alignments(s1, s2):
    """Every global alignment as a list of columns (a|None, b|None); never (None, None)."""
    if not s1 and not s2:
        yield []
        return
    if s1 and s2:
        for rest in all_alignments(s1[1:], s2[1:]):
            yield [(s1[0], s2[0])] + rest
    if s1:
        for rest in all_alignments(s1[1:], s2):
            yield [(s1[0], None)] + rest
    if s2:
        for rest in all_alignments(s1, s2[1:]):
            yield [(None, s2[0])] + rest


def score_of(cols, fn, gap):
    t = 0.0
    for a, b in cols:
        if a is None or b is None:
            t -= gap
        else:
            t -= fn(a, b)[0]
    return t


def check_case(acc, alignment, s1, s2, sname, spec):
    fn = model_fn(spec)          # the reference scores with its own reading of the scoring, never with the library's function
    if spec is None:
        gap = 1
        kw = {}
    else:
        gap = spec[1]
        kw = {'substitution': alignment.make_substitution_fn(spec[0], gap=spec[1], opt=spec[2])}
    best = -inf
    nbest = 0
    needs_indel = False
    for cols in all_alignments(s1, s2):
        sc = score_of(cols, fn, gap)
        if sc > best:
            best, nbest = sc, 1
            needs_indel = any(a is None or b is None for a, b in cols)
        elif sc == best:
            nbest += 1
    tags = {'scoring': sname, 'gap_is_1': gap == 1, 'len1': len(s1), 'len2': len(s2), 'empty': len(s1) == 0 or len(s2) == 0,
            'optimum_has_border_gap': None}
    case = {'s1': s1, 's2': s2, 'scoring': sname}
    res = core.call(alignment.needleman_wunsch, s1, s2, **kw)
    acc.trans()
    acc.valid()
    if isinstance(res, core.Exc) or not isinstance(res, tuple) or len(res) != 3:
        acc.violation('value', 'needleman_wunsch', 'py', tags, case, best, repr(res)[:300])
        return nbest > 1 or needs_indel
    value, scores, paths = res
    if not core.ulp_close(float(value), best, 4, 1e-12):
        acc.violation('value', 'needleman_wunsch', 'py', tags, case, best, float(value))
    acc.outcome(float(value))
    for order in itertools.permutations((0, 1, 2)):
        r2 = core.call(alignment.best_alignment, paths, s1, s2, gap=GAPSYM, order=list(order))
        acc.trans()
        acc.valid()
        why = None
        if isinstance(r2, core.Exc):
            why = repr(r2)
        else:
            p, a1, a2 = r2
            a1, a2 = list(a1), list(a2)
            if len(a1) != len(a2):
                why = 'aligned sequences differ in length: %r %r' % (a1, a2)
            elif ''.join(x for x in a1 if x != GAPSYM) != s1 or ''.join(x for x in a2 if x != GAPSYM) != s2:
                why = 'removing the gaps does not give the inputs: %r %r' % (a1, a2)
            elif any(x == GAPSYM and y == GAPSYM for x, y in zip(a1, a2)):
                why = 'gap aligned with gap: %r %r' % (a1, a2)
            else:
                cols = [(None if x == GAPSYM else x, None if y == GAPSYM else y) for x, y in zip(a1, a2)]
                sc = score_of(cols, fn, gap)
                if not core.ulp_close(sc, float(value), 4, 1e-12):
                    why = 'alignment %r/%r scores %r, returned value %r' % (''.join(a1), ''.join(a2), sc, float(value))
        if why:
            acc.violation('alignment', 'best_alignment', 'py', dict(tags, order=list(order)), dict(case, order=list(order)), 'consistent alignment scoring %r' % best, why)
    return nbest > 1 or needs_indel


def universe(tier):
    L = 6 if tier == 'thorough' else 4
    seqs = ['']
    for l in range(1, L + 1):
        seqs.extend(''.join(t) for t in itertools.product(ALPHA, repeat=l))
    for s1 in seqs:
        for s2 in seqs:
            if len(s1) + len(s2) > (9 if tier == 'thorough' else 7):
                continue
            yield s1, s2


def worker(acc, shard, nshards, tier, seed):
    from dtaidistance import alignment
    for k, (s1, s2) in enumerate(universe(tier)):
        if k % nshards != shard:
            continue
        for sname, spec in scorings(ALPHA):
            nt = check_case(acc, alignment, s1, s2, sname, spec)
            acc.case('len%d' % max(len(s1), len(s2)), nontrivial=nt)
        if not acc.samples or acc.states % 997 == 1:
            acc.sample({'s1': s1, 's2': s2})


def run(ctx):
    snap = build.snapshot_py()
    build.activate(snap)
    acc = core.run_sharded(worker, extra=(ctx.tier, ctx.seed))
    return core.finish(
        PROP, ctx.tier, ctx.seed, acc,
        rule='all pairs of sequences over {A,B,C} with lengths 0..%d (sum capped) x 6 scorings (default, custom gap .5/2, dictionaries with asymmetric entries, max/min orientation) x all 6 traceback orders; '
             'non-trivial = more than one optimal alignment or an optimal alignment needs an indel' % (6 if ctx.thorough else 4),
        bounds={'alphabet': ALPHA, 'lengths': '0..%d, sum <= %d (empty sequences on either side included)' % ((6, 9) if ctx.thorough else (4, 7)), 'scorings': [s[0] for s in scorings(ALPHA)],
                'orders': 'all 6 permutations of (diagonal, up, left)'},
        assumptions=['reference = explicit enumeration of every global alignment; column score = -substitution value for pairs, -gap for indels (the library\'s sign convention)',
                     'scoring values are dyadic, so sums are exact'],
        t0=ctx.t0)


def replay(ctx, rec):
    snap = build.snapshot_py()
    build.activate(snap)
    from dtaidistance import alignment
    v = rec.get('first', rec)
    case = v['case']
    acc = core.Acc()
    spec = dict((s[0], s[1]) for s in scorings(ALPHA))[case['scoring']]
    check_case(acc, alignment, case['s1'], case['s2'], case['scoring'], spec)
    for x in acc.viol[:5]:
        print('  ', x['check'], x['case'], 'expected', x['expected'], 'observed', x['observed'])
    if acc.nviol:
        print('VIOLATION property=%s replay=-' % PROP)
        return 1
    print('no violation')
    return 0
