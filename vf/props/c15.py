"""C15 - hierarchical clustering: a partition built from monotone, bounded merges; tree and SciPy variants.

The merge state machine is monitored on every transition through the public merge_hook; the distance function is a
stub that returns every upper-triangular table over a small alphabet (ties, duplicates, infinite entries).
"""
import itertools

from .. import build, core, oracles, univ
from ..core import inf

PROP = 'C15'


class Stub:
    """dists_fun that serves a prepared table (fresh copy on every call, honouring only_triu)."""

    def __init__(self, np, table):
        self.np = np
        self.table = table
        self.calls = 0

    def __call__(self, series, only_triu=False, **kw):
        np = self.np
        n = len(self.table)
        self.calls += 1
        M = np.full((n, n), np.inf)
        for r in range(n):
            for c in range(r + 1, n):
                M[r, c] = self.table[r][c]
                if not only_triu:
                    M[c, r] = self.table[r][c]
        if not only_triu:
            np.fill_diagonal(M, 0)
        return M


def tables(n, alpha):
    pairs = [(r, c) for r in range(n) for c in range(r + 1, n)]
    for vals in itertools.product(alpha, repeat=len(pairs)):
        T = [[inf] * n for _ in range(n)]
        for (r, c), v in zip(pairs, vals):
            T[r][c] = v
            T[c][r] = v
        yield T


def fit_monitored(np, hier, T, max_dist, hooks, series):
    """Run Hierarchical.fit on table T with a monitoring merge hook. Returns (clusters, events, problems)."""
    n = len(T)
    weights = [1] * n
    whook = hier.Hooks.create_weighthook(weights, series) if 'weight' in hooks else None
    ohook = hier.Hooks.create_orderhook(weights) if 'order' in hooks else None
    live = set(range(n))
    events = []
    problems = []
    last = [-inf]

    def hook(from_idx, to_idx, dist):
        i1, i2 = to_idx, from_idx
        dist = float(dist)
        if i1 not in live or i2 not in live or i1 == i2:
            problems.append('merge of (%d <- %d): not two live prototypes (live: %s)' % (i1, i2, sorted(live)))
        cur_min = min([T[p][q] for p in live for q in live if p < q] or [inf])
        if T[i1][i2] != dist:
            problems.append('reported distance %r is not the distance %r of the merged pair (%d,%d)' % (dist, T[i1][i2], i1, i2))
        if dist != cur_min:
            problems.append('merge at distance %r although the current minimum over live prototypes is %r' % (dist, cur_min))
        if dist < last[0]:
            problems.append('merge distances decrease: %r after %r' % (dist, last[0]))
        if dist > max_dist:
            problems.append('merge at %r above max_dist %r' % (dist, max_dist))
        last[0] = dist
        res = None
        if whook:
            res = whook(i1, i2, dist)
        keep, drop = res if res else (i1, i2)
        live.discard(drop)
        events.append((int(keep), int(drop), dist))
        return res

    model = hier.Hierarchical(Stub(np, T), {}, max_dist=max_dist, merge_hook=hook, order_hook=ohook, show_progress=False)
    clusters = model.fit(series)
    return model, clusters, events, problems, live


def judge_clusters(clusters, n, T, max_dist, live):
    try:
        keys = sorted(int(k) for k in clusters)
        members = [int(x) for k in clusters for x in clusters[k]]
    except Exception as e:  # noqa: BLE001
        return 'unusable result %r (%r)' % (clusters, e)
    if sorted(members) != list(range(n)):
        return 'clusters do not partition 0..%d: %r' % (n - 1, clusters)
    for k in clusters:
        if int(k) not in set(int(x) for x in clusters[k]):
            return 'cluster keyed %r does not contain its prototype: %r' % (k, clusters)
    if set(keys) != set(live):
        return 'cluster keys %r are not the remaining prototypes %r' % (keys, sorted(live))
    for p, q in itertools.combinations(keys, 2):
        if T[p][q] <= max_dist and T[p][q] != inf:
            return 'stopped although prototypes %d and %d are within max_dist (%r <= %r)' % (p, q, T[p][q], max_dist)
    return None


def canon(clusters):
    return sorted((int(k), tuple(sorted(int(x) for x in v))) for k, v in clusters.items())


def check_table(acc, np, hier, T, max_dist, hooks, deep):
    n = len(T)
    series = [[0.0] * (1 + (i % 3)) for i in range(n)]
    case = {'table': T, 'max_dist': max_dist, 'hooks': sorted(hooks)}
    tags = {'n': n, 'hooks': '+'.join(sorted(hooks)) or 'none', 'max_dist_finite': max_dist != inf, 'has_inf': any(T[r][c] == inf for r in range(n) for c in range(r + 1, n)),
            'ties': len(set(T[r][c] for r in range(n) for c in range(r + 1, n))) < n * (n - 1) // 2}
    core.crumb(case)
    res = core.call(fit_monitored, np, hier, T, max_dist, hooks, series)
    acc.trans()
    acc.valid()
    if isinstance(res, core.Exc):
        acc.violation('fit', 'Hierarchical.fit', 'py', dict(tags, what='fit'), case, 'clusters', repr(res))
        return 0
    model, clusters, events, problems, live = res
    acc.trans(len(events))
    why = problems[0] if problems else judge_clusters(clusters, n, T, max_dist, live)
    if why:
        acc.violation('merge', 'Hierarchical.fit', 'py', dict(tags, what='merge'), case, 'monotone bounded merges ending in a partition', {'clusters': canon(clusters) if isinstance(clusters, dict) else repr(clusters), 'events': events, 'why': why})
    if deep:
        # repeated fit on the same model object gives the same answer (fresh monitor state)
        model.merge_hook = None
        again = core.call(model.fit, series)
        model2 = hier.Hierarchical(Stub(np, T), {}, max_dist=max_dist, merge_hook=None, order_hook=None, show_progress=False)
        if 'weight' not in hooks and 'order' not in hooks:
            first = core.call(model2.fit, series)
            second = core.call(model2.fit, series)
            acc.trans(2)
            acc.valid()
            if isinstance(first, core.Exc) or isinstance(second, core.Exc) or canon(first) != canon(second) or canon(first) != canon(clusters):
                acc.violation('refit', 'Hierarchical.fit', 'py', dict(tags, what='refit'), case, canon(clusters), repr(second) if isinstance(second, core.Exc) else canon(second))
        # tree variant
        if max_dist == inf:
            for wrapped in ((False, True) if 'weight' in hooks else (False,)):
                if wrapped:
                    # the tree variant around a model whose own merge hook chooses the prototype (weight hook)
                    wts = [1 + (i % 2) for i in range(n)]
                    inner = hier.Hierarchical(Stub(np, T), {}, merge_hook=hier.Hooks.create_weighthook(wts, series),
                                            order_hook=hier.Hooks.create_orderhook(wts) if 'order' in hooks else None, show_progress=False)
                    tree = hier.HierarchicalTree(inner)
                else:
                    tree = hier.HierarchicalTree(dists_fun=Stub(np, T), dists_options={}, show_progress=False,
                                               order_hook=hier.Hooks.create_orderhook([1] * n) if 'order' in hooks else None)
                r1 = core.call(tree.fit, series)
                acc.trans()
                acc.valid()
                whyt = None
                if isinstance(r1, core.Exc):
                    whyt = repr(r1)
                else:
                    L = [tuple(x) for x in tree.linkage]
                    finite_all = not tags['has_inf']
                    children = [int(x[0]) for x in L] + [int(x[1]) for x in L]
                    if finite_all and len(L) != n - 1:
                        whyt = 'linkage has %d rows, expected n-1 = %d' % (len(L), n - 1)
                    elif len(set(children)) != len(children):
                        whyt = 'a node is a child twice: %r' % (L,)
                    elif any(c < 0 or c >= n + i for i, row in enumerate(L) for c in (int(row[0]), int(row[1]))):
                        whyt = 'a row refers to a node that does not exist yet: %r' % (L,)
                    elif finite_all and sorted(children) != list(range(2 * n - 2)):
                        whyt = 'children are not exactly the nodes 0..2n-3: %r' % (L,)
                    elif any(float(L[i][2]) > float(L[i + 1][2]) for i in range(len(L) - 1)):
                        whyt = 'merge distances in the linkage decrease: %r' % (L,)
                    if whyt is None and finite_all and not wrapped:
                        r2 = core.call(tree.fit, series)
                        if isinstance(r2, core.Exc) or [tuple(x) for x in tree.linkage] != L:
                            whyt = 'second fit on the same tree object differs'
                if whyt:
                    acc.violation('tree', 'HierarchicalTree.fit', 'py', dict(tags, what='tree', wraps_weighted_model=wrapped), dict(case, wraps_weighted_model=wrapped), 'single rooted binary tree with n-1 merges', whyt)
    return len(events)


def check_linkage(acc, np, hier, T, method):
    from scipy.cluster.hierarchy import linkage
    n = len(T)
    series = [[0.0] for _ in range(n)]
    lt = hier.LinkageTree(Stub(np, T), {}, method=method)
    got = core.call(lt.fit, series)
    cond = [T[r][c] for r in range(n) for c in range(r + 1, n)]
    exp = linkage(np.array(cond, dtype=float), method=method)
    acc.trans()
    acc.valid()
    if isinstance(got, core.Exc) or np.asarray(got).shape != exp.shape or not np.allclose(np.asarray(got), exp, rtol=0, atol=1e-12):
        acc.violation('scipy', 'LinkageTree.fit', 'py', {'what': 'scipy', 'n': n, 'method': method}, {'table': T, 'method': method}, exp.tolist(),
                      repr(got) if isinstance(got, core.Exc) else np.asarray(got).tolist())


def check_real(acc, np, hier, dtw, series, use_c):
    """Real distance function (dtw.distance_matrix, Python or C) under the same monitor, table = reference distances."""
    n = len(series)
    T = [[inf] * n for _ in range(n)]
    for r in range(n):
        for c in range(r + 1, n):
            T[r][c] = T[c][r] = oracles.dtw_ref(series[r], series[c])
    data = [np.array(s, dtype=float) for s in series]
    live = set(range(n))
    problems = []
    last = [-inf]

    def hook(from_idx, to_idx, dist):
        i1, i2 = to_idx, from_idx
        cur_min = min([T[p][q] for p in live for q in live if p < q] or [inf])
        if i1 not in live or i2 not in live:
            problems.append('merge of non-live prototypes %d <- %d' % (i1, i2))
        elif not core.ulp_close(float(dist), cur_min, 4) or not core.ulp_close(T[i1][i2], float(dist), 4):
            problems.append('merge (%d <- %d) at %r, current minimum %r, pair distance %r' % (i1, i2, float(dist), cur_min, T[i1][i2]))
        if float(dist) < last[0]:
            problems.append('merge distances decrease')
        last[0] = float(dist)
        live.discard(i2)

    model = hier.Hierarchical(dtw.distance_matrix, {'use_c': use_c}, merge_hook=hook, show_progress=False)
    res = core.call(model.fit, data)
    acc.trans()
    acc.valid()
    why = repr(res) if isinstance(res, core.Exc) else (problems[0] if problems else judge_clusters(res, n, T, inf, live))
    if why:
        acc.violation('real', 'Hierarchical.fit', 'c' if use_c else 'py', {'what': 'real', 'n': n}, {'series': series, 'use_c': use_c}, 'valid clustering', why)


def check_real_history(acc, np, hier, dtw, series, use_c, m1, m2):
    """Histories on one model with the real distance function: fit with max_dist m1, change max_dist to m2, fit again;
    then wrap the same model in HierarchicalTree.  Every fit must satisfy C15 for the max_dist in force."""
    n = len(series)
    T = [[inf] * n for _ in range(n)]
    for r in range(n):
        for c in range(r + 1, n):
            T[r][c] = T[c][r] = oracles.dtw_ref(series[r], series[c])
    data = [np.array(s, dtype=float) for s in series]
    state = {'live': set(range(n)), 'problems': [], 'last': -inf, 'md': m1}

    def hook(from_idx, to_idx, dist):
        i1, i2 = to_idx, from_idx
        live = state['live']
        cur_min = min([T[p][q] for p in live for q in live if p < q] or [inf])
        if i1 not in live or i2 not in live:
            state['problems'].append('merge of non-live prototypes %d <- %d' % (i1, i2))
        elif not core.ulp_close(float(dist), cur_min, 4):
            state['problems'].append('merge (%d <- %d) at %r, current minimum over live prototypes %r' % (i1, i2, float(dist), cur_min))
        if float(dist) > state['md'] * (1 + 1e-12):
            state['problems'].append('merge at %r above max_dist %r' % (float(dist), state['md']))
        if float(dist) < state['last']:
            state['problems'].append('merge distances decrease')
        state['last'] = float(dist)
        live.discard(i2)

    model = hier.Hierarchical(dtw.distance_matrix, {'use_c': use_c}, max_dist=m1, merge_hook=hook, show_progress=False)
    case = {'series': series, 'use_c': use_c, 'max_dist_sequence': [m1, m2]}
    for step, md in enumerate((m1, m2)):
        state.update(live=set(range(n)), problems=[], last=-inf, md=md)
        model.max_dist = md
        res = core.call(model.fit, data)
        acc.trans()
        acc.valid()
        # a max_dist that coincides with a pair distance is judged with the tie resolved either way only if it is not exactly representable
        why = repr(res) if isinstance(res, core.Exc) else (state['problems'][0] if state['problems'] else judge_clusters(res, n, T, md, state['live']))
        if why:
            acc.violation('real_history', 'Hierarchical.fit', 'c' if use_c else 'py', {'what': 'real_history', 'n': n, 'step': step, 'max_dist_finite': md != inf},
                          dict(case, step=step), 'valid clustering for the max_dist in force', why)
            return
    # the tree wrapper resets max_dist to infinity and must then record a full tree
    state.update(live=set(range(n)), problems=[], last=-inf, md=inf)
    tree = hier.HierarchicalTree(model)
    res = core.call(tree.fit, data)
    acc.trans()
    acc.valid()
    finite = all(T[r][c] != inf for r in range(n) for c in range(r + 1, n))
    why = repr(res) if isinstance(res, core.Exc) else (state['problems'][0] if state['problems'] else None)
    if why is None and finite and len(tree.linkage) != n - 1:
        why = 'tree over a model fitted before with max_dist=%r records %d merges, expected n-1 = %d' % (m2, len(tree.linkage), n - 1)
    if why:
        acc.violation('real_history', 'HierarchicalTree.fit', 'c' if use_c else 'py', {'what': 'real_history', 'n': n, 'step': 2, 'max_dist_finite': False},
                      dict(case, step='tree'), 'single rooted tree with n-1 merges', why)


def universe(tier):
    thorough = tier == 'thorough'
    for n in (2, 3, 4):
        for T in tables(n, (1.0, 2.0, 3.0, inf)):
            yield n, T, True
    if not thorough:
        for T in tables(5, (1.0, 2.0, inf)):
            yield 5, T, False
    else:
        for T in tables(5, (1.0, 2.0, inf)):
            yield 5, T, True
        for k, T in enumerate(tables(5, (1.0, 2.0, 3.0, inf))):
            if k % 2 == 0 and any(v == 3.0 for row in T for v in row):     # every 2nd table that really uses the 4th value
                yield 5, T, False
        for T in tables(6, (1.0, inf)):
            yield 6, T, False


def worker(acc, shard, nshards, tier, seed):
    import numpy as np
    from dtaidistance.clustering import hierarchical as hier
    from dtaidistance import dtw
    assert dtw.dtw_cc is not None
    scale = (1.0, 0.5, 2.0)[seed % 3]
    for k, (n, T0, deep) in enumerate(universe(tier)):
        if k % nshards != shard:
            continue
        T = [[v * scale for v in row] for row in T0]
        merges = 0
        mds = (inf, 2.5 * scale, 1.5 * scale, 0.5 * scale, 0.0) if n <= 4 else (inf, 1.5 * scale, 0.0)   # 0.0: a bound that is falsy (seed C15h)
        hookss = ((), ('weight',), ('order',), ('order', 'weight')) if n <= 4 else ((), ('order', 'weight'))
        for md in mds:
            for hooks in hookss:
                merges = max(merges, check_table(acc, np, hier, T, md, set(hooks), deep))
        if n <= 4 or k % 7 == 0:
            if not any(T[r][c] == inf for r in range(n) for c in range(r + 1, n)):
                for method in ('single', 'complete', 'average'):
                    check_linkage(acc, np, hier, T, method)
        vals = [T[r][c] for r in range(n) for c in range(r + 1, n)]
        acc.case('synthetic-n%d' % n, nontrivial=(len(set(vals)) < len(vals) or inf in vals or merges >= 2))
        if not acc.samples or acc.states % 2003 == 1:
            acc.sample({'table': T})
    A2 = univ.alphabet(univ.BASE2, seed)
    sers = univ.series(A2, 1, 2)
    idx = 0
    for n in (2, 3, 4):
        for coll in itertools.product(sers, repeat=n):
            idx += 1
            if idx % nshards != shard:
                continue
            if n == 4 and tier != 'thorough' and idx % 5:
                continue
            for use_c in (False, True):
                check_real(acc, np, hier, dtw, coll, use_c)
            acc.case('real-n%d' % n, nontrivial=len(set(coll)) < n or n > 2)
            if n >= 3 and (idx // nshards) % (1 if tier == 'thorough' else 3) == 0:
                # thresholds: in the gaps between the distinct pair distances, exactly on a pair distance (dyadic: exact), below and above all
                ds = sorted(set(oracles.dtw_ref(coll[r], coll[c]) for r in range(n) for c in range(r + 1, n)))
                ths = [inf, 0.0] + [(a + b) / 2.0 for a, b in zip(ds, ds[1:])] + [d for d in ds if d > 0 and (d * 2).is_integer()][:2] + [ds[0] / 2.0 if ds[0] > 0 else 0.25]
                for m1, m2 in itertools.permutations(ths[:4], 2):
                    for use_c in (False, True):
                        check_real_history(acc, np, hier, dtw, coll, use_c, m1, m2)
                    acc.case('real-history-n%d' % n, nontrivial=True)


def run(ctx):
    snap = build.snapshot_ext()
    build.activate(snap)
    acc = core.run_sharded(worker, extra=(ctx.tier, ctx.seed))
    return core.finish(
        PROP, ctx.tier, ctx.seed, acc,
        rule='every upper-triangular distance table for n = 2..4 over {1,2,3,inf} and n = 5 over {1,2,inf}%s x max_dist x {no hook, weight hook, order hook, both}; every merge transition is '
             'monitored through merge_hook; HierarchicalTree and repeated fits for the small tables; LinkageTree vs scipy for finite tables; real dtw.distance_matrix (Python and C) on all '
             'collections of 2..4 short series; non-trivial = ties, an infinite entry or at least two merges' % ('; thorough: n = 5 with tree variants, every 2nd n = 5 table over {1,2,3,inf}, n = 6 over {1,inf}' if ctx.thorough else ''),
        bounds={'synthetic': 'n<=4: 4^(n(n-1)/2) tables x 4 max_dist x 4 hook sets; n=5: 3^10 tables x 2 x 2 (thorough: with tree variants, plus every 2nd of the 4^10 tables over {1,2,3,inf} and n=6: 2^15 tables)', 'real': 'series over a 2-letter alphabet with lengths 1..2; histories: fit with max_dist m1, set max_dist m2, fit again, wrap in HierarchicalTree (all ordered pairs of up to 4 thresholds: inf, gaps, exact pair distances)'},
        assumptions=['monitor invariants are exactly those of C15: two live prototypes, distance = current minimum over live pairs, non-decreasing, <= max_dist, partition keyed by contained prototypes, '
                     'no two remaining prototypes within max_dist', 'with infinite entries only forest well-formedness of the tree is demanded (C15 does not define merging at infinite distance)',
                     'tie-breaking order and which index stays prototype are not prescribed by C15 and are not compared with a reference run'],
        t0=ctx.t0)


def replay(ctx, rec):
    snap = build.snapshot_ext()
    build.activate(snap)
    import numpy as np
    from dtaidistance.clustering import hierarchical as hier
    from dtaidistance import dtw
    v = rec.get('first', rec)
    c = core.unjson(v['case'])
    acc = core.Acc()
    if 'series' in c:
        check_real(acc, np, hier, dtw, tuple(tuple(s) for s in c['series']), c['use_c'])
    elif 'method' in c:
        check_linkage(acc, np, hier, c['table'], c['method'])
    else:
        check_table(acc, np, hier, c['table'], c['max_dist'], set(c['hooks']), True)
    for x in acc.viol[:5]:
        print('  ', x['check'], x['api'], 'observed', x['observed'])
    if acc.nviol:
        print('VIOLATION property=%s replay=-' % PROP)
        return 1
    print('no violation')
    return 0
