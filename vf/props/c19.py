"""C19 - distance-to-similarity and squashing are monotone, bounded, faithful to their documented formulas."""
import itertools
import math

from .. import build, core
from ..core import inf

PROP = 'C19'
VALS = (0.0, 0.5, 1.0, 3.0)
TOL = 1e-12


def arrays(np, thorough):
    shapes = [(1,), (2,), (3,), (2, 2)] + ([(4,), (2, 3), (1, 1), (5,), (2, 1, 2), (7,)] if thorough else [])
    for sh in shapes:
        n = 1
        for k in sh:
            n *= k
        if n > 4:
            # larger shapes: arrays over a 3-letter sub-alphabet
            for t in itertools.product((0.0, 1.0, 3.0), repeat=n):
                yield np.array(t, dtype=float).reshape(sh)
        else:
            for t in itertools.product(VALS, repeat=n):
                yield np.array(t, dtype=float).reshape(sh)


def ref_d2s(D, method, r, a):
    """The documented formulas (elementwise, plain Python)."""
    out = []
    for d in D:
        if method == 'exponential':
            out.append(math.exp(-d / r))
        elif method == 'gaussian':
            out.append(math.exp(-d * d / (r * r)))
        elif method == 'reciprocal':
            out.append(1.0 / (r + d * a))
        elif method == 'reverse':
            out.append((r - d) / r)
    return out


def ref_squash(X, method, r, x0, base):
    b = math.e if base is None else base
    out = []
    for x in X:
        if method == 'logistic':
            out.append(1.0 / (1.0 + b ** (-(x - x0) / r)))
        elif method == 'gaussian':
            out.append(1.0 - b ** (-(x * x) / (r * r)))
        elif method == 'exponential':
            out.append(1.0 - b ** (-x / r))
    return out


def finite_pos(v):
    try:
        v = float(v)
    except (TypeError, ValueError):
        return False
    return math.isfinite(v) and v > 0


def close(a, b):
    return abs(a - b) <= 1e-12 * max(1.0, abs(a), abs(b))


def check_d2s(acc, np, sim, D, method, r, a, cq):
    flat = [float(x) for x in D.ravel()]
    case = {'fn': 'distance_to_similarity', 'D': D.tolist(), 'method': method, 'r': r, 'a': a, 'cover_quantile': cq}
    tags = {'fn': 'd2s', 'method': method, 'explicit_r': r is not None, 'explicit_a': a is not None, 'cover_quantile': cq is not False,
            'all_zero': all(x == 0 for x in flat), 'single': len(flat) == 1}
    kw = {'method': method, 'cover_quantile': cq}
    if r is not None:
        kw['r'] = r
    if a is not None:
        kw['a'] = a
    with np.errstate(all='ignore'):
        res = core.call(sim.distance_to_similarity, D, return_params=True, **kw)
        res2 = core.call(sim.distance_to_similarity, D, **kw)
    acc.trans(2)
    if isinstance(res, core.Exc) or isinstance(res2, core.Exc):
        acc.valid()
        acc.violation('call', 'distance_to_similarity', 'py', tags, case, 'a result', repr(res if isinstance(res, core.Exc) else res2))
        return
    S, r_used = res
    Sf = [float(x) for x in np.asarray(S).ravel()]
    derived = r is None and cq is not False
    if cq is not False and method == 'reciprocal' and a is None:
        derived = True
    if derived:
        # explicitly requested quantile target: skip when it is unsatisfiable / degenerate (C19 makes no claim there)
        ok_scale = finite_pos(r_used) and all(math.isfinite(x) for x in Sf)
        if method == 'reciprocal':
            ok_scale = ok_scale and all(x > 0 for x in Sf)
        if not ok_scale:
            acc.count('degenerate_quantile_target_not_judged')
            return
    acc.valid()
    why = None
    if tuple(np.asarray(S).shape) != tuple(D.shape):
        why = 'shape changed'
    elif [float(x) for x in np.asarray(res2).ravel()] != Sf:
        why = 'return_params changes the values'
    elif any(x != x for x in Sf):
        why = 'NaN in the result'
    else:
        # (i) non-increasing in the distance
        for i in range(len(flat)):
            for j in range(len(flat)):
                if flat[i] <= flat[j] and not (Sf[i] >= Sf[j] - TOL):
                    why = why or 'not non-increasing: D %r<=%r but S %r<%r' % (flat[i], flat[j], Sf[i], Sf[j])
        # (ii) a zero distance gets the maximal similarity
        if why is None and 0.0 in flat:
            if not (Sf[flat.index(0.0)] >= max(Sf) - TOL):
                why = 'zero distance is not mapped to the maximal similarity'
        # (iii) default scale: within [0, 1]
        if why is None and r is None and a is None and cq is False:
            if not all(-TOL <= x <= 1 + TOL for x in Sf):
                why = 'default scale leaves [0,1]: %r' % (Sf,)
            if why is None and 0.0 in flat and method != 'reverse' and not close(Sf[flat.index(0.0)], 1.0):
                why = 'zero distance should map to similarity 1 under the default scale, got %r' % Sf[flat.index(0.0)]
        # (iv) explicit parameters: the documented formula
        if why is None and cq is False and ((method == 'reciprocal') or r is not None):
            rr = r if r is not None else 1
            aa = a if a is not None else 1
            exp = ref_d2s(flat, method, rr, aa)
            if not all(close(x, y) for x, y in zip(Sf, exp)):
                why = 'differs from the documented formula: expected %r' % (exp,)
        # (iv-b) derived parameters: "r (and a) are set such that at the quantile the given value is reached"
        if why is None and cq is not False and ((method in ('exponential', 'gaussian') and r is None) or (method == 'reciprocal' and a is None)):
            q, target = (cq if isinstance(cq, (tuple, list)) else (cq, 1 - cq))
            xq = float(np.quantile(D, q))
            if xq > 0 and 0 < target < 1:
                got = None
                if method == 'exponential':
                    got = math.exp(-xq / float(r_used))
                elif method == 'gaussian':
                    got = math.exp(-xq * xq / float(r_used) ** 2)
                else:
                    # 1/S = r + a*D is affine in D: read r and the derived a off two distinct data points (or the single one)
                    pts = sorted(set(zip(flat, Sf)))
                    if len(pts) >= 2 and pts[0][0] != pts[-1][0]:
                        (x1, y1), (x2, y2) = pts[0], pts[-1]
                        aa = (1.0 / y2 - 1.0 / y1) / (x2 - x1)
                        got = 1.0 / (1.0 / y1 + aa * (xq - x1))
                    elif pts and pts[0][0] == xq:
                        got = pts[0][1]
                if got is not None and not abs(got - target) <= 1e-9:
                    why = 'at the %r-quantile (distance %r) the similarity is %r, the requested value is %r' % (q, xq, got, target)
        # (v) re-applying with the reported parameter reproduces the output (whenever every derived parameter is reported)
        if why is None and not (method == 'reciprocal' and a is None and cq is not False):
            kw2 = {'method': method, 'r': r_used}
            if a is not None:
                kw2['a'] = a
            with np.errstate(all='ignore'):
                again = core.call(sim.distance_to_similarity, D, **kw2)
            acc.trans()
            if isinstance(again, core.Exc) or not all(close(float(x), y) for x, y in zip(np.asarray(again).ravel(), Sf)):
                why = 're-applying with the reported r=%r does not reproduce the output' % (r_used,)
    acc.outcome(tuple(round(x, 9) for x in Sf[:4]))
    if why:
        acc.violation('property', 'distance_to_similarity', 'py', tags, case, 'monotone / bounded / faithful', {'S': Sf, 'r_used': core.jsonable(r_used), 'why': why})


def check_squash(acc, np, sim, X, method, r, x0, base, cq, keep_sign):
    flat = [float(x) for x in X.ravel()]
    case = {'fn': 'squash', 'X': X.tolist(), 'method': method, 'r': r, 'x0': x0, 'base': base, 'cover_quantile': cq, 'keep_sign': keep_sign}
    signed = any(x < 0 for x in flat)
    tags = {'fn': 'squash', 'method': method, 'explicit_r': r is not None, 'x0': x0, 'base': base is not None, 'cover_quantile': cq is not False,
            'keep_sign': keep_sign, 'all_zero': all(x == 0 for x in flat), 'signed': signed}
    kw = {'method': method, 'cover_quantile': cq, 'keep_sign': keep_sign}
    for k, v in (('r', r), ('x0', x0), ('base', base)):
        if v is not None:
            kw[k] = v
    with np.errstate(all='ignore'):
        res = core.call(sim.squash, X, return_params=True, **kw)
    acc.trans()
    if isinstance(res, core.Exc):
        acc.valid()
        acc.violation('call', 'squash', 'py', tags, case, 'a result', repr(res))
        return
    S, r_used, x0_used = res
    Sf = [float(x) for x in np.asarray(S).ravel()]
    if r is None and cq is not False:
        if not (finite_pos(r_used) and all(math.isfinite(x) for x in Sf)):
            acc.count('degenerate_quantile_target_not_judged')
            return
    acc.valid()
    why = None
    if any(x != x for x in Sf):
        why = 'NaN in the result'
    else:
        for i in range(len(flat)):
            for j in range(len(flat)):
                if flat[i] <= flat[j] and not (Sf[i] <= Sf[j] + TOL):
                    why = why or 'not non-decreasing: X %r<=%r but S %r>%r' % (flat[i], flat[j], Sf[i], Sf[j])
        if why is None and not signed and not all(-TOL <= x <= 1 + TOL for x in Sf):
            why = 'leaves [0,1]: %r' % (Sf,)
        if why is None and not keep_sign and r is not None and cq is False and (method == 'logistic' or not x0):
            # (an explicit non-zero x0 is documented as "not supported" for gaussian/exponential: whether it is ignored is not
            #  part of C19, so only monotonicity, range and reproducibility are judged there)
            # an explicitly given midpoint is the one of the formula (a derived one is taken from the report)
            xx0 = (x0 if x0 is not None else x0_used) if method == 'logistic' else 0.0
            if method == 'logistic' and x0 is not None and not close(float(x0_used), float(x0)):
                why = 'explicit x0=%r but the reported midpoint is %r' % (x0, core.jsonable(x0_used))
            exp = ref_squash(flat, method, r, float(xx0), base)
            if why is None and not all(close(x, y) for x, y in zip(Sf, exp)):
                why = 'differs from the documented formula: expected %r' % (exp,)
        if why is None:
            kw2 = {'method': method, 'r': r_used, 'keep_sign': keep_sign}
            if method == 'logistic' or x0 is not None:
                kw2['x0'] = x0_used
            if base is not None:
                kw2['base'] = base
            with np.errstate(all='ignore'):
                again = core.call(sim.squash, X, **kw2)
            acc.trans()
            if isinstance(again, core.Exc) or not all(close(float(x), y) for x, y in zip(np.asarray(again).ravel(), Sf)):
                why = 're-applying with the reported r=%r, x0=%r does not reproduce the output' % (r_used, x0_used)
    acc.outcome(tuple(round(x, 9) for x in Sf[:4]))
    if why:
        acc.violation('property', 'squash', 'py', tags, case, 'monotone / into [0,1] / faithful', {'S': Sf, 'r_used': core.jsonable(r_used), 'x0_used': core.jsonable(x0_used), 'why': why})


def worker(acc, shard, nshards, tier, seed):
    import numpy as np
    from dtaidistance import similarity as sim
    thorough = tier == 'thorough'
    scale = (1.0, 0.5, 2.0, 4.0)[seed % 4]
    k = 0
    for D0 in arrays(np, thorough):
        k += 1
        if k % nshards != shard:
            continue
        D = D0 * scale
        nt = len(set(D.ravel().tolist())) >= 2
        for method in ('exponential', 'gaussian', 'reciprocal', 'reverse'):
            for r in (None, 0.5, 2):
                for a in ((None, 0.5, 2) if method == 'reciprocal' else (None,)):
                    for cq in (False, 0.5, (0.5, 0.2)):
                        if cq is not False and method == 'reverse':
                            continue
                        check_d2s(acc, np, sim, D, method, r, a, cq)
                        acc.case('d2s-' + method, nontrivial=nt)
        for method in ('logistic', 'gaussian', 'exponential'):
            for r in (None, 0.5, 2):
                for x0 in (None, 0, 1):
                    for base in (None, 2, 10):
                        for cq in (False, 0.5, (0.5, 0.2)):
                            for keep_sign in (False, True):
                                check_squash(acc, np, sim, D, method, r, x0, base, cq, keep_sign)
                                acc.case('squash-' + method, nontrivial=nt)
                                if keep_sign and D.ndim == 1:
                                    Xs = D - scale    # signed variant
                                    check_squash(acc, np, sim, Xs, method, r, x0 if x0 != 1 else None, base, False, True)
                                    acc.case('squash-signed-' + method, nontrivial=nt)
        if k % 97 == 1:
            acc.sample({'D': D.tolist()})


def run(ctx):
    snap = build.snapshot_py()
    build.activate(snap)
    acc = core.run_sharded(worker, extra=(ctx.tier, ctx.seed))
    return core.finish(
        PROP, ctx.tier, ctx.seed, acc,
        rule='all arrays over {0,.5,1,3} (x seed scale) of shapes (1,),(2,),(3,),(2,2)%s x method x r{None,.5,2} x a{None,.5,2} x x0{None,0,1} x base{None,2,10} x cover_quantile{False,.5,(.5,.2)} x keep_sign; '
             'non-trivial = the array has at least two distinct values' % (',(4,),(2,3),(1,1),(5,),(2,1,2),(7,) (3-letter sub-alphabet above 4 elements)' if ctx.thorough else ''),
        bounds={'values': [v * (1.0, 0.5, 2.0, 4.0)[ctx.seed % 4] for v in VALS], 'signed_arrays': '1-D arrays shifted down by one unit, with keep_sign'},
        assumptions=['documented formulas are those of the docstrings (reverse: (r - D) / r)',
                     'an explicitly requested cover_quantile target that is unsatisfiable or degenerate (derived scale not finite and positive) is counted and not judged',
                     'reciprocal with a quantile-derived a: the derived a is not among the reported parameters, so re-application is not judged there',
                     'range [0,1] of squash is judged on non-negative input (C19 quantifies over non-negative distance arrays); signed input only for monotonicity with keep_sign'],
        t0=ctx.t0)


def replay(ctx, rec):
    snap = build.snapshot_py()
    build.activate(snap)
    import numpy as np
    from dtaidistance import similarity as sim
    v = rec.get('first', rec)
    c = core.unjson(v['case'])
    acc = core.Acc()
    cq = c.get('cover_quantile')
    if isinstance(cq, list):
        cq = tuple(cq)
    if c['fn'] == 'squash':
        check_squash(acc, np, sim, np.array(c['X'], dtype=float), c['method'], c.get('r'), c.get('x0'), c.get('base'), cq, c.get('keep_sign'))
    else:
        check_d2s(acc, np, sim, np.array(c['D'], dtype=float), c['method'], c.get('r'), c.get('a'), cq)
    for x in acc.viol:
        print('  ', x['check'], x['api'], 'observed', x['observed'])
    if acc.nviol:
        print('VIOLATION property=%s replay=-' % PROP)
        return 1
    print('no violation')
    return 0
