"""C05 - every reported best path is a valid warping path that achieves the reported distance."""
import array
import ctypes

from .. import build, clib, core, oracles, univ
from ..core import inf

PROP = 'C05'
INNERS = {'sq': 'squared euclidean', 'eu': 'euclidean'}


def kw_of(case, with_inner=True):
    kw = {}
    if with_inner:
        kw['inner_dist'] = INNERS[case['inner']]
    for k in ('window', 'penalty', 'psi', 'max_step'):
        v = case.get(k)
        if v is not None:
            kw[k] = tuple(v) if isinstance(v, list) else v
    return kw


def tags_of(case, route):
    psi = oracles.norm_psi(case.get('psi') if not isinstance(case.get('psi'), list) else tuple(case['psi']))
    r, c = len(case['s1']), len(case['s2'])
    w = case.get('window')
    return {'route': route, 'ndim': case.get('ndim', 1), 'inner': case['inner'], 'window_lt_full': bool(w and w < max(r, c)),
            'penalty_on': bool(case.get('penalty')), 'psi_begin': bool(psi[0] or psi[2]), 'psi_end': bool(psi[1] or psi[3]),
            'max_step_on': bool(case.get('max_step'))}


class Eng:
    def __init__(self):
        import numpy as np
        from dtaidistance import dtw, dtw_ndim
        self.np, self.dtw, self.dtw_ndim = np, dtw, dtw_ndim
        assert dtw.dtw_cc is not None
        self.lib = clib.Lib(clib.build_libdd(asserts=False))


def routes(E, case):
    """Yield (route, engine, path-or-Exc, reported distance or None)."""
    np, dtw = E.np, E.dtw
    nd = case.get('ndim', 1)
    a1, a2 = np.array(case['s1'], dtype=float), np.array(case['s2'], dtype=float)
    kw = kw_of(case)
    I = oracles.inner_of(INNERS[case['inner']], nd > 1)
    mod = E.dtw_ndim if nd > 1 else dtw
    # 1/2/3: best_path / best_path2 on a Python matrix and on a C matrix
    for eng, f in (('py', mod.warping_paths), ('c', mod.warping_paths_fast)):
        res = core.call(f, a1, a2, **kw)
        if isinstance(res, core.Exc):
            yield 'best_path(%s matrix)' % eng, eng, res, None
            continue
        d, M = res
        yield 'matrix marks(%s)' % eng, eng, M, d
        if not case.get('penalty'):
            # without a penalty argument the greedy back-tracking is only defined for penalty-free matrices
            yield 'best_path(%s matrix)' % eng, eng, core.call(dtw.best_path, M), d
            if eng == 'py':
                yield 'best_path2(py matrix)', eng, core.call(dtw.best_path2, M), d
        if case.get('penalty'):
            # documented use with a penalty: internal representation + the transformed penalty
            res2 = core.call(f, a1, a2, keep_int_repr=True, **kw)
            if not isinstance(res2, core.Exc):
                d2, M2 = res2
                yield 'best_path(%s matrix,int,penalty)' % eng, eng, core.call(dtw.best_path, M2, penalty=I.ival(case['penalty'])), \
                    (I.result(d2) if d2 not in (inf,) and d2 >= 0 else d2)
    # 4: warping_path
    res = core.call(mod.warping_path, a1, a2, include_distance=True, **kw) if nd == 1 else core.call(mod.warping_path, a1, a2, **kw)
    if nd == 1 and not isinstance(res, core.Exc):
        yield 'warping_path', 'py', res[0], res[1]
    else:
        yield 'warping_path', 'py', res, None
    # 5: warping_path_fast / dtw_cc.warping_path_ndim (squared euclidean only: the wrappers take no inner_dist)
    if case['inner'] == 'sq':
        ckw = kw_of(case, with_inner=False)
        if nd == 1:
            res = core.call(dtw.warping_path_fast, a1, a2, include_distance=True, **ckw)
        else:
            res = core.call(dtw.dtw_cc.warping_path_ndim, a1, a2, nd, include_distance=True, **ckw)
        if isinstance(res, core.Exc):
            yield 'warping_path_fast', 'c', res, None
        else:
            yield 'warping_path_fast', 'c', res[0], res[1]
    # 6: best_path_compact on a compact internal-representation matrix
    if nd == 1:
        res = core.call(dtw.warping_paths_fast, a1, a2, compact=True, keep_int_repr=True, **kw)
        if not isinstance(res, core.Exc):
            d, W = res
            ckw = dict(kw_of(case, with_inner=False), inner_dist=INNERS[case['inner']])
            yield 'best_path_compact', 'c', core.call(dtw.dtw_cc.best_path_compact, W, len(a1), len(a2), **ckw), \
                (I.result(d) if d != inf and d >= 0 else d)
        # 8: warp (only without psi: with relaxation some target positions stay unmatched and warp cannot average them)
        if case.get('psi') is None:
            res = core.call(dtw.warp, a1, a2, **kw)
            yield 'warp', 'py', (res if isinstance(res, core.Exc) else res[1]), None


def judge_path(acc, case, route, eng, p, d_reported, exp, P, pen, ms, psi, I):
    r, c = len(case['s1']), len(case['s2'])
    acc.trans()
    if exp == inf:
        return
    acc.valid()
    tol = 1e-12
    if isinstance(p, core.Exc):
        acc.violation('path', route, eng, tags_of(case, route), case, 'a path', repr(p))
        return
    p = [tuple(int(x) for x in ij) for ij in p]
    why = oracles.path_valid(p, r, c, case.get('window'), psi, P, ms)
    if why is None:
        cost = I.result(oracles.path_cost(p, P, pen))
        if not core.ulp_close(cost, exp, 4, tol):
            why = 'cost of the path %r != reference distance %r' % (cost, exp)
        elif d_reported is not None and not core.ulp_close(float(d_reported), cost, 4, tol):
            why = 'cost of the path %r != reported distance %r' % (cost, float(d_reported))
    if why is not None:
        t = tags_of(case, route)
        acc.violation('path', route, eng, t, case, 'valid path with cost %r' % exp, {'path': p, 'why': why})


def check_case(acc, E, case, custom=False):
    nd = case.get('ndim', 1)
    I = oracles.inner_of(INNERS[case['inner']], nd > 1)
    s1, s2 = case['s1'], case['s2']
    r, c = len(s1), len(s2)
    psi = oracles.norm_psi(case.get('psi') if not isinstance(case.get('psi'), list) else tuple(case['psi']))
    P = oracles.pd_matrix(s1, s2, I.pd)
    pen = I.ival(case['penalty']) if case.get('penalty') else 0.0
    ms = I.ival(case['max_step']) if case.get('max_step') else inf
    D = oracles.cells(P, r, c, case.get('window'), pen, psi, ms)
    v = oracles.cells_value(D, r, c, psi)
    exp = I.result(v) if v < inf else inf
    for route, eng, p, d in routes(E, case):
        if route.startswith('matrix marks'):
            # The direct best_path routes start from the -1 marks of the matrix.  If the matrix marks EVERY optimal end cell
            # of the relaxed last row / column as skipped, the matrix (not the back-tracking) is wrong: reported under its own
            # check name, so that the open finding K01 (ties next to correctly placed marks) cannot absorb it.
            if exp != inf and (psi[1] or psi[3]):
                ends = [(i, c - 1) for i in range(max(0, r - 1 - psi[1]), r)] + [(r - 1, j) for j in range(max(0, c - 1 - psi[3]), c)]
                best = [e for e in ends if e in D and core.ulp_close(D[e], v, 4, 1e-12)]
                acc.valid()
                try:
                    marked = [e for e in best if float(p[e[0] + 1][e[1] + 1]) == -1.0]
                except Exception as ex:  # noqa: BLE001
                    marked, best = None, None
                    acc.violation('path_matrix', route, eng, tags_of(case, route), case, 'a matrix', repr(ex))
                if best and len(marked) == len(best):
                    acc.violation('path_matrix', route, eng, tags_of(case, route), case, 'an optimal end cell that is not marked as skipped',
                                  {'optimal_end_cells': best, 'all_marked_-1': True})
            continue
        judge_path(acc, case, route, eng, p, d, exp, P, pen, ms, psi, I)
    if custom and nd == 1:
        # 7: dtw_best_path_customstart from every in-band finite cell on the compact internal matrix
        lib = E.lib
        kw = kw_of(case)
        st = lib.settings(window=kw.get('window'), max_step=kw.get('max_step'), penalty=kw.get('penalty'), psi=kw.get('psi'), inner_dist=kw['inner_dist'])
        n = lib.dtw_settings_wps_length(r, c, st)
        wps = (clib.seq_t * n)()
        f1, f2 = clib.darr(s1), clib.darr(s2)
        lib.dtw_warping_paths(wps, f1, r, f2, c, True, True, False, st)
        i1 = (clib.idx_t * (r + c))()
        i2 = (clib.idx_t * (r + c))()
        for (ci, cj), val in sorted(D.items()):
            ln = lib.dtw_best_path_customstart(wps, i1, i2, r, c, ci + 1, cj + 1, st)
            acc.trans()
            acc.valid()
            p = [(i1[k], i2[k]) for k in range(ln)][::-1]
            why = None
            if not p or p[-1] != (ci, cj):
                why = 'path does not end in the requested start cell %r' % ((ci, cj),)
            else:
                why = oracles.path_valid(p, r, c, case.get('window'), psi, P, ms, check_end=False)   # a partial path may end anywhere
                if why is None:
                    cost = oracles.path_cost(p, P, pen)
                    if not core.ulp_close(cost, val, 4, 1e-12):
                        why = 'cost %r of the traced path != cell optimum %r' % (cost, val)
            if why:
                acc.violation('custom_start', 'dtw_best_path_customstart', 'native', tags_of(case, 'customstart'),
                              dict(case, start=[ci, cj]), 'optimal partial path', {'path': p, 'why': why})
    return exp


def universe(tier, seed, shard, nshards):
    A = univ.alphabet(univ.BASE3, seed)
    thorough = tier == 'thorough'
    sers = univ.series(A, 1, 4 if thorough else 3)
    idx = 0
    for s1 in sers:
        for s2 in sers:
            idx += 1
            if idx % nshards != shard:
                continue
            r, c = len(s1), len(s2)
            psis = [None, 1, (0, 1, 0, 0), (0, 0, 0, 1), (1, 0, 1, 0), (0, 0, 0, c), (0, r, 0, 0), (1, 1, 0, 0), (0, 1, 0, 1), (1, 0, 0, 0), (0, 0, 1, 0)]
            for w in (None, 1, 2):
                for pen in (None, 0.5, 2):
                    for ms in (None, univ.max_step2(seed)):
                        for inner in ('sq', 'eu'):
                            for psi in psis:
                                if psi is not None:
                                    p = oracles.norm_psi(psi)
                                    if oracles.psi_degenerate(p, r, c) or max(p[:2]) > r or max(p[2:]) > c:
                                        continue
                                yield 'U1-values', True, {'s1': s1, 's2': s2, 'window': w, 'penalty': pen, 'psi': psi, 'max_step': ms, 'inner': inner}
    L = 6 if thorough else 5
    cat = univ.CAT_PAIRS_THOROUGH if thorough else univ.CAT_PAIRS_QUICK
    for r in range(1, L + 1):
        for c in range(1, L + 1):
            if max(r, c) <= 3:
                continue
            for w in univ.windows(r, c, extra=0):
                idx += 1
                if idx % nshards != shard:
                    continue
                for psi in (None, 1, 2, (0, 1, 0, 1), (1, 0, 1, 0), (0, 0, 0, c), (0, r, 0, 0), (0, 2, 0, 0), (0, 0, 0, 2)):
                    if psi is not None:
                        p = oracles.norm_psi(psi)
                        if oracles.psi_degenerate(p, r, c) or max(p[:2]) > r or max(p[2:]) > c:
                            continue
                    for (k1, k2) in cat:
                        for pen, ms in ((None, None), (0.5, None), (None, 1.2)):
                            yield 'U3-shapes', max(r, c) <= 4, {'s1': univ.catalogue(r, A, k1), 's2': univ.catalogue(c, A, k2), 'window': w,
                                                              'penalty': pen, 'psi': psi, 'max_step': ms, 'inner': 'sq' if (k1 + k2) % 2 == 0 else 'eu'}
    top = 19 if thorough else 13
    for r in range(1, top):
        for c in range(1, top):
            if max(r, c) < 7:
                continue
            idx += 1
            if idx % nshards != shard:
                continue
            for w in ((1, 2, 3, 4, 5) if thorough else (1, 2, 3)):
                for psi in (None, 1, (0, 0, 0, 2), (0, 2, 0, 0), (2, 0, 0, 0), (0, 0, 2, 0)) + \
                        (((5, 0, 0, 0), (0, 0, 5, 0), (0, 5, 0, 0), (0, 0, 0, 5), (3, 3, 3, 3), (0, r, 0, 0), (0, 0, 0, c)) if thorough else ()):
                    if psi is not None:
                        p = oracles.norm_psi(psi)
                        if oracles.psi_degenerate(p, r, c) or max(p[:2]) > r or max(p[2:]) > c:
                            continue
                    for (k1, k2) in ((0, 3), (5, 0)):
                        for pen in (None, 0.5):
                            yield 'U5-long', False, {'s1': univ.catalogue(r, A, k1), 's2': univ.catalogue(c, A, k2), 'window': w, 'penalty': pen, 'psi': psi,
                                                     'max_step': None, 'inner': 'sq' if (r + c) % 2 else 'eu'}
    A2 = univ.alphabet(univ.BASE2, seed)
    sers2 = univ.series_nd(A2, 2, 1, 2)
    for s1 in sers2:
        for s2 in sers2:
            idx += 1
            if idx % nshards != shard:
                continue
            r, c = len(s1), len(s2)
            for w in (None, 1):
                for pen in (None, 0.5):
                    for inner in ('sq', 'eu'):
                        for psi in (None, 1, (0, 1, 0, 0), (0, 0, 0, 1)):
                            if psi is not None:
                                p = oracles.norm_psi(psi)
                                if oracles.psi_degenerate(p, r, c) or max(p[:2]) > r or max(p[2:]) > c:
                                    continue
                            yield 'U4-ndim', False, {'s1': s1, 's2': s2, 'ndim': 2, 'window': w, 'penalty': pen, 'psi': psi, 'inner': inner}


def worker(acc, shard, nshards, tier, seed):
    E = Eng()
    for sub, custom, case in universe(tier, seed, shard, nshards):
        core.crumb(case)
        exp = check_case(acc, E, case, custom)
        r, c = len(case['s1']), len(case['s2'])
        acc.case(sub, nontrivial=bool(r > 1 and c > 1 and (case.get('penalty') or case.get('psi') or case.get('window'))))
        acc.outcome(exp)
        if not acc.samples or acc.states % 20011 == 1:
            acc.sample(case)


def run(ctx):
    snap = build.snapshot_ext()
    build.activate(snap)
    clib.build_libdd(asserts=False)
    acc = core.run_sharded(worker, extra=(ctx.tier, ctx.seed))
    return core.finish(
        PROP, ctx.tier, ctx.seed, acc,
        rule='every case x routes {best_path on Python matrix, best_path on C matrix, best_path2, best_path with internal representation + penalty, warping_path, '
             'warping_path_fast / warping_path_ndim, best_path_compact, warp, dtw_best_path_customstart from every finite in-band cell}; a path must be admissible '
             '(steps, band, max_step, relaxed corners) and its accumulated cost must equal the reference distance and the reported distance; '
             'non-trivial = more than one admissible path and penalty, psi or band active',
        bounds={'alphabet': list(univ.alphabet(univ.BASE3, ctx.seed)),
                'U1': 'all pairs len 1..3 (1..4 in thorough) x window{None,1,2} x penalty{None,.5,2} x max_step{None, 2|a| (separates squared from unsquared comparisons)} x inner x 11 psi forms; custom start from every finite cell',
                'U3': 'all shapes up to %d x every window x 9 psi forms x catalogue values' % (6 if ctx.thorough else 5), 'U4': 'ndim 2, len 1..2', 'U5': 'long thin bands: every shape up to %s with max >= 7, windows %s, %d psi forms' % (('18x18', '1..5', 13) if ctx.thorough else ('12x12', '1..3', 6))},
        assumptions=['engines may return different optimal paths: no path equality is demanded', 'cases without any admissible path (reference inf) are not judged'],
        t0=ctx.t0)


def replay(ctx, rec):
    snap = build.snapshot_ext()
    build.activate(snap)
    v = rec.get('first', rec)
    case = core.unjson(v['case'])
    case.pop('start', None)
    tup = lambda s: tuple(tuple(p) if isinstance(p, list) else p for p in s)
    case['s1'] = tup(case['s1']); case['s2'] = tup(case['s2'])
    E = Eng()
    acc = core.Acc()
    check_case(acc, E, case, custom=case.get('ndim', 1) == 1)
    for x in acc.viol:
        print('  ', x['check'], x['api'], 'expected', x['expected'], 'observed', x['observed'])
    if acc.nviol:
        print('VIOLATION property=%s replay=-' % PROP)
        return 1
    print('no violation')
    return 0
