"""C07 - parallel distance-matrix computation is schedule-independent.

(a) OpenMP: stateless model checking of the real C routines under `vomp`, a virtual OpenMP runtime with a
    cooperative, explorer-controlled scheduler (native/vomp.c, native/c07drv.c): all interleavings of
    scheduling points up to a preemption bound x thread counts x dispatch kinds x blocks; bitwise
    comparison with the serial routine; conflicting accesses become extra scheduling points.
(b) multiprocessing: a virtual worker pool (pickled tasks, the real chunking formula, every completion
    order) replaces multiprocessing.Pool; the model is validated against the real Pool on every run.
"""
import itertools
import os
import pickle
import re
import subprocess

from .. import build, core

PROP = 'C07'


def build_vomp():
    """repo C sources: gcc -fopenmp -fsanitize=thread as instrumentation only; linked against vomp, not libgomp/libtsan."""
    with open(os.path.join(build.VERIF, 'native', 'vomp.c'), 'rb') as f:
        h1 = f.read()
    with open(os.path.join(build.VERIF, 'native', 'c07drv.c'), 'rb') as f:
        h2 = f.read()
    import hashlib
    recipe = 'v3|' + hashlib.sha256(h1 + h2).hexdigest()

    def builder(d):
        import shutil
        inc = os.path.join(build.REPO, build.CDIR)
        cdir = os.path.join(d, 'c')
        os.makedirs(cdir)
        for f in os.listdir(inc):
            if f.endswith(('.c', '.h')):
                shutil.copy2(os.path.join(inc, f), os.path.join(cdir, f))
        objs = []
        for f in ('dd_dtw.c', 'dd_ed.c', 'dd_dtw_openmp.c'):
            o = os.path.join(d, f[:-2] + '.o')
            build._run(['gcc', '-O0', '-g', '-w', '-fopenmp', '-fsanitize=thread', '-Dmalloc=vomp_malloc', '-Dfree=vomp_free', '-Dcalloc=vomp_calloc',
                        '-I', cdir, '-c', os.path.join(cdir, f), '-o', o], d, None, 'instrumented compile of ' + f)
            objs.append(o)
        for f in ('vomp.c', 'c07drv.c'):
            o = os.path.join(d, f[:-2] + '.o')
            build._run(['gcc', '-O1', '-g', '-w', '-I', cdir, '-c', os.path.join(build.VERIF, 'native', f), '-o', o], d, None, 'compile of ' + f)
            objs.append(o)
        # no -fopenmp / -fsanitize at link time: a GOMP or tsan symbol that vomp does not provide fails the link (BUILD-ERROR, not a verdict)
        build._run(['gcc', '-o', os.path.join(d, 'c07drv')] + objs + ['-lm'], d, None, 'link against the vomp runtime')
    return os.path.join(build._cached('vomp', recipe, builder), 'c07drv')


def omp_groups(tier):
    thorough = tier == 'thorough'
    g = []
    for entry in range(6):
        for n in (2, 3, 4, 5):
            allblocks = 1 if n <= (4 if thorough else 3) else 0
            if not thorough and n == 4 and entry in (0, 2):
                allblocks = 1
            g.append((entry, n, 3 if thorough else 2, 4 if thorough else 3, allblocks, 400000 if thorough else 60000))
    return g


def omp_worker(acc, shard, nshards, tier, seed, exe):
    for k, g in enumerate(omp_groups(tier)):
        if k % nshards != shard:
            continue
        r = core.run_beating([exe] + [str(x) for x in g])
        m = re.search(r'STAT entry=(\d+) n=(\d+) configs=(\d+) execs=(\d+) points_total=(\d+) points_max=(\d+) multi_thread_execs=(\d+) racy_configs=(\d+) viol=(\d+) caps=(\d+)', r.stdout or '')
        tags = {'part': 'openmp', 'entry': g[0], 'n': g[1]}
        if not m:
            acc.violation('crash', 'c07drv', 'vomp', dict(tags, kind='driver died'), {'args': g}, 'STAT line', ((r.stdout or '')[-600:] + (r.stderr or '')[-900:]))
            acc.states += 1
            continue
        configs, execs, ptot, pmax, multi, racy, viol, caps = [int(x) for x in m.groups()[2:]]
        acc.states += configs
        acc.trans(ptot)
        acc.valid(execs)
        acc.nontrivial += multi
        acc.count('omp_executions', execs)
        acc.count('omp_racy_configs', racy)
        acc.extra['omp_max_scheduling_points'] = max(acc.extra.get('omp_max_scheduling_points', 0), pmax)
        if caps:
            acc.cap('omp_execution_or_config_caps', caps)
        s = acc.sub.setdefault('openmp-entry%d' % g[0], [0, 0])
        s[0] += configs
        s[1] += multi
        for ln in (r.stdout or '').splitlines():
            if ln.startswith('VIOL '):
                mk = re.search(r'kind=(\S+) (.*?) schedule=(\S*)', ln)
                fields = dict(re.findall(r'(\w+)=(\S+)', mk.group(2))) if mk else {}
                acc.violation('schedule', 'dtw_distances_*_parallel', 'vomp',
                              dict(tags, kind=mk.group(1) if mk else '?', dispatch=fields.get('dispatch'), T=fields.get('T')),
                              {'driver_args': g, 'config': mk.group(2) if mk else ln, 'schedule': mk.group(3) if mk else ''},
                              'output bitwise equal to the serial routine', ln[:600])
            elif ln.startswith('RACE-BENIGN'):
                acc.count('omp_benign_race_configs')
        if k % 5 == 0:
            acc.sample({'driver_args': g, 'configs': configs, 'executions': execs, 'max_points': pmax})


# ---------------------------------------------------------------- (b) virtual multiprocessing pool

class VirtualPool:
    """Model of multiprocessing.Pool sufficient for Pool.map/starmap/imap/imap_unordered/apply_async.

    Tasks are chunks (the real chunking formula); function and chunk are pickled and unpickled per task;
    tasks complete in the order given by `order` (a permutation chosen by the explorer)."""
    order = None
    processes = 2
    log = None

    def __init__(self, processes=None, *a, **k):
        self.n = processes or VirtualPool.processes

    def __enter__(self):
        return self

    def __exit__(self, *a):
        return False

    def close(self):
        pass

    def join(self):
        pass

    def terminate(self):
        pass

    def _chunks(self, iterable, chunksize):
        items = list(iterable)
        if chunksize is None:
            chunksize, extra = divmod(len(items), self.n * 4)
            if extra:
                chunksize += 1
        if len(items) == 0:
            chunksize = 0
        if not chunksize:
            return items, []
        return items, [items[i:i + chunksize] for i in range(0, len(items), chunksize)]

    def _run(self, fn, chunks, star=False):
        blob = pickle.dumps(fn)
        order = list(VirtualPool.order) if VirtualPool.order is not None else list(range(len(chunks)))
        order = [i for i in order if i < len(chunks)] + [i for i in range(len(chunks)) if i not in order]
        done = {}
        for i in order:
            f = pickle.loads(blob)
            args = pickle.loads(pickle.dumps(chunks[i]))
            res = [f(*a) if star else f(a) for a in args]
            done[i] = pickle.loads(pickle.dumps(res))
        if VirtualPool.log is not None:
            VirtualPool.log.append(('tasks', len(chunks), tuple(order)))
        return order, done

    def map(self, fn, iterable, chunksize=None):
        items, chunks = self._chunks(iterable, chunksize)
        order, done = self._run(fn, chunks)
        return [x for i in range(len(chunks)) for x in done[i]]

    def starmap(self, fn, iterable, chunksize=None):
        items, chunks = self._chunks(iterable, chunksize)
        order, done = self._run(fn, chunks, star=True)
        return [x for i in range(len(chunks)) for x in done[i]]

    def imap(self, fn, iterable, chunksize=1):
        items, chunks = self._chunks(iterable, chunksize)
        order, done = self._run(fn, chunks)
        return iter([x for i in range(len(chunks)) for x in done[i]])

    def imap_unordered(self, fn, iterable, chunksize=1):
        items, chunks = self._chunks(iterable, chunksize)
        order, done = self._run(fn, chunks)
        return iter([x for i in order for x in done[i]])

    def apply_async(self, fn, args=(), kwds=None, callback=None):
        raise NotImplementedError('VirtualPool.apply_async')


def mp_worker(acc, shard, nshards, tier, seed):
    import multiprocessing
    import numpy as np
    from dtaidistance import dtw, dtw_ndim
    real_pool = multiprocessing.Pool
    thorough = tier == 'thorough'
    a, b = 1.0 + seed % 3, 0.5 * (seed % 2)
    colls = {
        1: [np.array([a * x + b for x in s], dtype=float) for s in ([0.0, 1.0, 2.0], [1.0], [2.5, 0.0], [0.0, 0.0, 1.0, 4.0], [3.0, 1.0])],
        2: [np.array(s, dtype=float) * a + b for s in ([[0.0, 1.0], [1.0, 1.0]], [[2.0, 0.0]], [[0.0, 0.0], [1.0, 2.0], [0.0, 3.0]], [[1.0, 1.0]], [[4.0, 0.0], [0.0, 1.0]])],
    }
    idx = 0
    for nd in (1, 2):
        mod = dtw if nd == 1 else dtw_ndim
        for n in ((2, 3, 4, 5) if thorough else (2, 3, 4)):
            series = colls[nd][:n]
            blocks = [None] + [((rb, re), (cb, ce)) + fl for rb in range(n) for re in range(rb + 1, n + 1) for cb in range(n) for ce in range(cb + 1, n + 1)
                               for fl in ((), (False,))]
            for block in blocks:
                for use_c in (False, True):
                    for st in ({}, {'window': 1, 'penalty': 0.5}):
                        idx += 1
                        if idx % nshards != shard:
                            continue
                        case = {'ndim': nd, 'n': n, 'block': block, 'use_c': use_c, 'settings': st}
                        serial = core.call(mod.distance_matrix, series, block=block, compact=True, parallel=False, use_c=use_c, **st)
                        acc.trans()
                        if isinstance(serial, core.Exc):
                            acc.refused += 1
                            continue
                        serial = [float(x) for x in serial]
                        ntasks_seen = 0
                        for P in (1, 2, 3):
                            VirtualPool.processes = P
                            VirtualPool.order = None
                            VirtualPool.log = []
                            multiprocessing.Pool = VirtualPool
                            try:
                                first = core.call(mod.distance_matrix, series, block=block, compact=True, parallel=True, use_mp=True, use_c=use_c, **st)
                                ntasks = VirtualPool.log[-1][1] if VirtualPool.log else 0
                                ntasks_seen = max(ntasks_seen, ntasks)
                                orders = list(itertools.permutations(range(ntasks))) if ntasks <= 6 else \
                                    [tuple(range(ntasks)), tuple(reversed(range(ntasks)))] + [tuple(list(range(k, ntasks)) + list(range(k))) for k in range(1, ntasks)]
                                if ntasks > 6:
                                    acc.cap('pool_orders_rotations_only_beyond_6_tasks')
                                for order in orders:
                                    VirtualPool.order = order
                                    got = core.call(mod.distance_matrix, series, block=block, compact=True, parallel=True, use_mp=True, use_c=use_c, **st)
                                    acc.trans()
                                    acc.valid()
                                    ok = not isinstance(got, core.Exc) and [float(x) for x in got] == serial
                                    if not ok:
                                        acc.violation('pool_order', 'distance_matrix(parallel,use_mp)', 'c' if use_c else 'py',
                                                      {'part': 'multiprocessing', 'ndim': nd, 'use_c': use_c, 'block_none': block is None},
                                                      dict(case, P=P, completion_order=order), serial, repr(got) if isinstance(got, core.Exc) else [float(x) for x in got])
                                        break
                            finally:
                                multiprocessing.Pool = real_pool
                        acc.case('mp-virtual-pool', nontrivial=ntasks_seen > 1)
                        # conformance of the pool model (and one real schedule of the property): the real Pool gives the serial result
                        if idx % (3 if thorough else 11) == 0:
                            got = core.call(mod.distance_matrix, series, block=block, compact=True, parallel=True, use_mp=True, use_c=use_c, **st)
                            acc.count('real_pool_conformance_runs')
                            if isinstance(got, core.Exc) or [float(x) for x in got] != serial:
                                acc.violation('real_pool', 'distance_matrix(parallel,use_mp)', 'c' if use_c else 'py',
                                              {'part': 'multiprocessing-real', 'ndim': nd, 'use_c': use_c}, case, serial,
                                              repr(got) if isinstance(got, core.Exc) else [float(x) for x in got])
    # state left behind inside a chunk (seed C07g): every ORDER of a collection whose short pairs precede pairs that need warping,
    # so that each kind of pair is at some point the first / a later task of a chunk; one worker (chunks of 2) and two
    L1, L2 = [b, b, b, a + b], [b, a + b, a + b, a + b]
    base = [np.array(x, dtype=float) for x in ([b], [a + b], L1, L2)]
    for k, perm in enumerate(itertools.permutations(range(4))):
        if k % nshards != shard:
            continue
        series = [base[i] for i in perm]
        for use_c in (False, True):
            case = {'ndim': 1, 'n': 4, 'block': None, 'use_c': use_c, 'settings': {}, 'series': [x.tolist() for x in series]}
            serial = [float(x) for x in dtw.distance_matrix(series, compact=True, parallel=False, use_c=use_c)]
            acc.trans()
            for P in (1, 2):
                VirtualPool.processes = P
                VirtualPool.log = []
                multiprocessing.Pool = VirtualPool
                try:
                    for order in (list(itertools.permutations(range(4))) if P == 1 else [tuple(range(6)), tuple(reversed(range(6)))]):
                        VirtualPool.order = order
                        got = core.call(dtw.distance_matrix, series, compact=True, parallel=True, use_mp=True, use_c=use_c)
                        acc.trans()
                        acc.valid()
                        if isinstance(got, core.Exc) or [float(x) for x in got] != serial:
                            acc.violation('pool_chunk_state', 'distance_matrix(parallel,use_mp)', 'c' if use_c else 'py',
                                          {'part': 'multiprocessing', 'ndim': 1, 'use_c': use_c, 'block_none': True},
                                          dict(case, P=P, completion_order=order), serial, repr(got) if isinstance(got, core.Exc) else [float(x) for x in got])
                            break
                finally:
                    multiprocessing.Pool = real_pool
            acc.case('mp-virtual-pool-orders', nontrivial=True)
    # the OpenMP route through Cython under the real libgomp (one real schedule per configuration)
    if shard == 0:
        for nd in (1, 2):
            mod = dtw if nd == 1 else dtw_ndim
            series = colls[nd]
            for block in (None, ((0, 3), (1, 5)), ((1, 4), (0, 3), False), ((3, 5), (0, 2))):
                serial = core.call(mod.distance_matrix, series, block=block, compact=True, parallel=False, use_c=True)
                got = core.call(mod.distance_matrix, series, block=block, compact=True, parallel=True, use_c=True)
                acc.trans(2)
                acc.valid()
                acc.case('omp-real-libgomp', nontrivial=True)
                if isinstance(got, core.Exc) or isinstance(serial, core.Exc) or list(got) != list(serial):
                    acc.violation('real_omp', 'distance_matrix(parallel,use_c)', 'c', {'part': 'openmp-real', 'ndim': nd},
                                  {'ndim': nd, 'block': block}, repr(serial), repr(got))


def run(ctx):
    exe = build_vomp()
    gs = omp_groups(ctx.tier)
    acc = core.run_sharded(omp_worker, nshards=len(gs), extra=(ctx.tier, ctx.seed, exe))
    snap = build.snapshot_ext()
    build.activate(snap)
    acc2 = core.run_sharded(mp_worker, extra=(ctx.tier, ctx.seed))
    acc.merge(acc2)
    return core.finish(
        PROP, ctx.tier, ctx.seed, acc,
        rule='OpenMP: for each of the 6 *_parallel entry points x collection size x block x thread count x dispatch kind x settings, every interleaving of scheduling points '
             '(runtime calls; plus accesses to addresses found in conflict) up to the preemption bound is executed on the real C code under the vomp runtime; a state is one '
             'configuration, transitions are scheduling points, validated traces are complete executions compared bitwise with the serial routine; '
             'multiprocessing: every block x engine x settings under a virtual pool with P in {1,2,3} and every completion order of the tasks; '
             'non-trivial = at least two virtual threads executed iterations / at least two tasks',
        bounds={'preemption_bound': 3 if ctx.thorough else 2, 'threads': '1..%d (more threads than rows included)' % (4 if ctx.thorough else 3),
                'dispatch': 'static chunk 1, static block, dynamic chunk 1, dynamic chunk 2, guided (explorer-chosen, the pragma is ignored)',
                'collections': 'n = 2..5 series (unequal lengths for the ptrs variants, ndim 2 for the ndim variants)',
                'settings': 'default; window 2 + psi 1 + penalty .5; use_pruning; max_dist 2.5 + psi_1b 1; max_length_diff 1 (the last three under static-1 and dynamic-1 dispatch)',
                'blocks': 'every block for n <= %d, a covering subset (none, full, upper-right, crossing, below diagonal, single row) above' % (4 if ctx.thorough else 3),
                'pool': 'P in {1,2,3}, all permutations of <= 6 tasks (rotations beyond), Python and C single-pair routine, ndim 1-2, n <= %d' % (5 if ctx.thorough else 4)},
        assumptions=['sequentially consistent interleaving model with race detection; weak-memory effects and the correctness of libgomp itself are out of scope',
                     'thread counts above 4 and the real OS scheduler are not explored; the real libgomp and the real multiprocessing.Pool are run once per configuration for conformance',
                     'a data race that changes no output under any explored schedule is reported in evidence (omp_benign_race_configs), not as a violation: C07 speaks about results'],
        t0=ctx.t0)


def replay(ctx, rec):
    v = rec.get('first', rec)
    case = v['case']
    if 'driver_args' in case:
        exe = build_vomp()
        r = subprocess.run([exe] + [str(x) for x in case['driver_args']], stdout=subprocess.PIPE, stderr=subprocess.PIPE, text=True)
        out = [ln for ln in r.stdout.splitlines() if ln.startswith(('VIOL', 'STAT'))]
        print('\n'.join(x[:400] for x in out[:6]))
        if any(x.startswith('VIOL') for x in out):
            print('VIOLATION property=%s replay=-' % PROP)
            return 1
        return 0
    print('multiprocessing case: re-run ./check C07 (%s)' % case)
    return 1
