"""C06 - distance matrix == pairwise distances in the documented layout, for any block."""
import array
import ctypes
import itertools

from .. import build, clib, core, oracles, univ
from ..core import inf

PROP = 'C06'
GOLOMB = (0.0, 1.0, 4.0, 9.0, 15.0, 22.0, 32.0, 34.0)
SETTINGS = [{}, {'window': 1, 'penalty': 0.5}, {'psi': (1, 0, 0, 0)}, {'psi': (0, 0, 0, 1), 'window': 2}, {'max_length_diff': 1}]


def families(n, seed):
    """Collections of n series with pairwise distinct distances (checked), as tuples of tuples / of vectors."""
    a, b = univ.relabel(seed)
    g = [a * x + b for x in GOLOMB]
    fam = {}
    fam['eq1'] = (1, tuple((g[i],) for i in range(n)))                                   # length 1, matrix-able
    fam['eq2'] = (1, tuple((g[i], g[i] + 0.5 * a) for i in range(n)))                    # length 2, matrix-able
    fam['uneq'] = (1, tuple(tuple(g[i] + 0.25 * a * k for k in range(1 + (i % 3))) for i in range(n)))   # lengths 1..3
    fam['nd2'] = (2, tuple(((g[i], 0.0), (g[i], 1.0 * a)) for i in range(n)))            # equal length, 2-vectors
    fam['nd3u'] = (3, tuple(tuple((g[i], 0.5 * a * k, 0.0) for k in range(1 + (i % 2))) for i in range(n)))  # unequal length 3-vectors
    return fam


def ref_table(series, nd, st):
    n = len(series)
    T = [[0.0] * n for _ in range(n)]
    for r in range(n):
        for c in range(n):
            T[r][c] = oracles.dtw_ref(series[r], series[c], window=st.get('window'), penalty=st.get('penalty'), psi=st.get('psi'),
                                      max_length_diff=st.get('max_length_diff'), ndim=nd > 1)
    return T


def pairs_of(block, n):
    """Row-major list of selected (r, c) per the documented layout."""
    if block is None:
        return [(r, c) for r in range(n) for c in range(r + 1, n)]
    (rb, re), (cb, ce) = block[0], block[1]
    triu = not (len(block) > 2 and block[2] is False)
    out = []
    for r in range(rb, re):
        for c in range((max(r + 1, cb) if triu else cb), min(n, ce)):
            out.append((r, c))
    return out


def all_blocks(n):
    yield None
    for rb in range(n):
        for re in range(rb + 1, n + 1):
            for cb in range(n):
                for ce in range(cb + 1, n + 1):
                    yield ((rb, re), (cb, ce))
                    yield ((rb, re), (cb, ce), False)


class Eng:
    def __init__(self):
        import numpy as np
        from dtaidistance import dtw, dtw_ndim, util
        self.np, self.dtw, self.dtw_ndim, self.util = np, dtw, dtw_ndim, util
        assert dtw.dtw_cc is not None
        self.lib = clib.Lib(clib.build_libdd(asserts=False))

    def containers(self, series, nd):
        np = self.np
        out = {}
        lens = set(len(s) for s in series)
        if nd == 1:
            out['list_of_lists'] = [list(s) for s in series]
            out['list_of_ndarray'] = [np.array(s, dtype=float) for s in series]
            out['list_of_array'] = [array.array('d', s) for s in series]
            if len(lens) == 1:
                out['ndarray2d'] = np.array(series, dtype=float)
            out['SeriesContainer'] = self.util.SeriesContainer([np.array(s, dtype=float) for s in series])
        else:
            out['list_of_ndarray2d'] = [np.array(s, dtype=float) for s in series]
            if len(lens) == 1:
                out['ndarray3d'] = np.array(series, dtype=float)
        return out


def close(a, b):
    return core.ulp_close(float(a), float(b), 4, 1e-12)


def check_collection(acc, E, fname, nd, series, st, do_native):
    np = E.np
    n = len(series)
    T = ref_table(series, nd, st)
    kw = dict(st)
    conts = E.containers(series, nd)
    lib = E.lib
    nontrivial = 0
    for block in all_blocks(n):
        core.crumb({'family': fname, 'n': n, 'block': block, 'settings': st})
        sel = pairs_of(block, n)
        exp = [T[r][c] for r, c in sel]
        triu = not (block is not None and len(block) > 2 and block[2] is False)
        btags = {'family': fname, 'ndim': nd, 'n': n, 'block_none': block is None, 'triu': triu, 'empty': len(sel) == 0,
                 'crosses_diag': bool(block is not None and block[0][0] < block[1][1] - 1 and block[1][0] <= block[0][1] - 1),
                 'settings': ('psi' if st.get('psi') else 'max_length_diff' if 'max_length_diff' in st else 'window+penalty') if st else 'default'}
        case0 = {'family': fname, 'series': series, 'ndim': nd, 'block': block, 'settings': st}
        if block is not None and (len(sel) == 0 or not triu or block[1][0] <= block[0][0]):
            nontrivial += 1
        # advertised lengths
        acc.valid()
        L = core.call(E.dtw._distance_matrix_length, block, n)
        if L != len(exp):
            acc.violation('length', 'dtw._distance_matrix_length', 'py', dict(btags, what='length'), case0, len(exp), repr(L) if isinstance(L, core.Exc) else L)
        if block is not None:
            b = lib.block(block)
            acc.valid()
            Lc = lib.dtw_distances_length(b, n, n)
            if Lc != len(exp):
                acc.violation('length', 'dtw_distances_length', 'native', dict(btags, what='length'), case0, len(exp), Lc)
            blk = core.call(E.dtw.dtw_cc.DTWBlock, block[0][0], block[0][1], block[1][0], block[1][1], triu)
            if not isinstance(blk, core.Exc):
                Lcc = core.call(E.dtw.dtw_cc.distance_matrix_length, blk, n)
                acc.valid()
                if Lcc != len(exp):
                    acc.violation('length', 'dtw_cc.distance_matrix_length', 'c', dict(btags, what='length'), case0, len(exp), repr(Lcc) if isinstance(Lcc, core.Exc) else Lcc)
        # compact results per container and engine
        for cname, data in conts.items():
            for eng in ('py', 'c'):
                if eng == 'c' and cname == 'list_of_lists':
                    continue    # documented refusal: the C engine needs array buffers
                mod = E.dtw_ndim if nd > 1 else E.dtw
                got = core.call(mod.distance_matrix, data, block=block, compact=True, use_c=(eng == 'c'), **kw)
                acc.trans()
                if isinstance(got, core.Exc) and got.refusal:
                    acc.refused += 1
                    continue
                acc.valid()
                ok = not isinstance(got, core.Exc) and len(got) == len(exp) and all(close(g, e) for g, e in zip(got, exp))
                if not ok:
                    acc.violation('compact', 'distance_matrix', eng, dict(btags, what='compact', container=cname), dict(case0, container=cname),
                                  exp, repr(got) if isinstance(got, core.Exc) else [float(x) for x in got])
                # square form (only defined for triangular selections)
                if triu:
                    for only_triu in (False, True):
                        M = core.call(mod.distance_matrix, data, block=block, compact=False, only_triu=only_triu, use_c=(eng == 'c'), **kw)
                        acc.trans()
                        acc.valid()
                        if isinstance(M, core.Exc):
                            acc.violation('square', 'distance_matrix', eng, dict(btags, what='square', container=cname, only_triu=only_triu),
                                          dict(case0, container=cname, only_triu=only_triu), 'a matrix', repr(M))
                            continue
                        if len(sel) == 0 and block is not None and isinstance(M, list) and M == []:
                            continue   # a block that selects no pair: the API returns an empty result
                        want = [[inf] * n for _ in range(n)]
                        for (r, c), e in zip(sel, exp):
                            want[r][c] = e
                            if not only_triu:
                                want[c][r] = e
                        bad = None
                        try:
                            if tuple(M.shape) != (n, n):
                                bad = ('shape', list(M.shape))
                            else:
                                for r in range(n):
                                    for c in range(n):
                                        if r == c:
                                            if not only_triu and M[r, c] != 0:
                                                bad = ((r, c), float(M[r, c]))
                                            continue
                                        if not (M[r, c] == want[r][c] or close(M[r, c], want[r][c])):
                                            bad = bad or ((r, c), float(M[r, c]))
                        except Exception as e:  # noqa: BLE001
                            bad = ('unusable result', repr(e))
                        if bad:
                            acc.violation('square', 'distance_matrix', eng, dict(btags, what='square', container=cname, only_triu=only_triu),
                                          dict(case0, container=cname, only_triu=only_triu), want, {'first_bad': bad})
        # exported C routines with an output buffer of exactly the advertised size
        if do_native:
            b = lib.block(block)
            s = lib.settings(window=st.get('window'), penalty=st.get('penalty'), psi=st.get('psi'), max_length_diff=st.get('max_length_diff'))
            nout = len(exp)
            lens = [len(x) for x in series]
            flat = [clib.darr(clib.flat(x)) for x in series]
            ptrs = (ctypes.POINTER(clib.seq_t) * n)(*[ctypes.cast(f, ctypes.POINTER(clib.seq_t)) for f in flat])
            larr = (clib.idx_t * n)(*lens)
            calls = []
            if nd == 1:
                calls.append(('dtw_distances_ptrs', lambda out: lib.dtw_distances_ptrs(ptrs, n, larr, out, lib.block(block), s)))
                if len(set(lens)) == 1:
                    mat = clib.darr([v for x in series for v in x])
                    calls.append(('dtw_distances_matrix', lambda out: lib.dtw_distances_matrix(mat, n, lens[0], out, lib.block(block), s)))
                    if block is not None:
                        calls.append(('dtw_distances_matrices', lambda out: lib.dtw_distances_matrices(mat, n, lens[0], mat, n, lens[0], out, lib.block(block), s)))
            else:
                calls.append(('dtw_distances_ndim_ptrs', lambda out: lib.dtw_distances_ndim_ptrs(ptrs, n, larr, nd, out, lib.block(block), s)))
                if len(set(lens)) == 1:
                    mat = clib.darr([v for x in series for p in x for v in p])
                    calls.append(('dtw_distances_ndim_matrix', lambda out: lib.dtw_distances_ndim_matrix(mat, n, lens[0], nd, out, lib.block(block), s)))
                    if block is not None:
                        calls.append(('dtw_distances_ndim_matrices', lambda out: lib.dtw_distances_ndim_matrices(mat, n, lens[0], mat, n, lens[0], nd, out, lib.block(block), s)))
            for name, f in calls:
                out = (clib.seq_t * max(nout, 1))(*([-7.0] * max(nout, 1)))
                ln = f(out)
                acc.trans()
                acc.valid()
                got = [out[k] for k in range(nout)]
                if ln != nout or not all(close(g, e) for g, e in zip(got, exp)):
                    acc.violation('native', name, 'native', dict(btags, what='native'), case0, {'length': nout, 'values': exp}, {'length': ln, 'values': got})
    # condensed index helper addresses the un-blocked compact result
    full = [T[r][c] for r, c in pairs_of(None, n)]
    for a_ in range(n):
        for b_ in range(n):
            if a_ == b_:
                continue
            k = core.call(E.dtw.distance_array_index, a_, b_, n)
            acc.valid()
            if isinstance(k, core.Exc) or not (0 <= k < len(full)) or not close(full[k], T[min(a_, b_)][max(a_, b_)]):
                acc.violation('index', 'dtw.distance_array_index', 'py', {'family': fname, 'n': n, 'what': 'index'},
                              {'a': a_, 'b': b_, 'n': n}, 'index of pair', repr(k) if isinstance(k, core.Exc) else k)
    return nontrivial


def jobs(tier, seed):
    N = 8 if tier == 'thorough' else 6
    out = []
    for n in range(1, N + 1):
        for fname in ('eq1', 'eq2', 'uneq', 'nd2', 'nd3u'):
            for si, st in enumerate(SETTINGS):
                if n == N and tier != 'thorough' and (fname in ('eq1',) and si == 1 or si >= 2 and fname in ('nd3u', 'eq1')):
                    continue
                if 'max_length_diff' in st and fname not in ('uneq', 'nd3u'):
                    continue    # equal lengths: the option cannot act
                out.append((n, fname, si))
    return out


def worker(acc, shard, nshards, tier, seed):
    E = Eng()
    for k, (n, fname, si) in enumerate(jobs(tier, seed)):
        if k % nshards != shard:
            continue
        nd, series = families(n, seed)[fname]
        T = ref_table(series, nd, SETTINGS[si])
        vals = [T[r][c] for r in range(n) for c in range(r + 1, n)]
        if not SETTINGS[si].get('psi') and 'max_length_diff' not in SETTINGS[si]:
            assert len(set(vals)) == len(vals), ('family does not have pairwise distinct distances', fname, n, si, vals)
        nt = check_collection(acc, E, fname, nd, series, SETTINGS[si], True)
        nb = sum(1 for _ in all_blocks(n))
        acc.states += nb
        acc.nontrivial += nt
        s = acc.sub.setdefault('%s-n%d' % (fname, n), [0, 0])
        s[0] += nb
        s[1] += nt
        acc.sample({'family': fname, 'n': n, 'series': series, 'settings': SETTINGS[si], 'blocks': nb})


def run(ctx):
    snap = build.snapshot_ext()
    build.activate(snap)
    clib.build_libdd(asserts=False)
    njobs = len(jobs(ctx.tier, ctx.seed))
    acc = core.run_sharded(worker, nshards=njobs, extra=(ctx.tier, ctx.seed))
    return core.finish(
        PROP, ctx.tier, ctx.seed, acc,
        rule='for every collection (n = 1..N, 5 families with pairwise distinct distances, 5 DTW settings incl. one-sided psi tuples that make the distance asymmetric and max_length_diff=1 on the unequal-length families, which makes some pairs inf) EVERY block ((rb,re),(cb,ce)[,False]) with 0<=rb<re<=n, 0<=cb<ce<=n plus None is '
             'enumerated; a state is one (collection, block); non-trivial = block selects no pair, is non-triangular or reaches the diagonal/below',
        bounds={'N': 8 if ctx.thorough else 6, 'families': 'eq1 (len 1), eq2 (len 2), uneq (len 1..3), nd2 (2-vectors), nd3u (3-vectors, unequal length), values from a Golomb ruler',
                'containers': 'list of lists, list of ndarray, list of array.array, 2-D ndarray, SeriesContainer; list of 2-D ndarray, 3-D ndarray',
                'engines': 'Python serial, C serial through Cython, exported dtw_distances_{ptrs,matrix,matrices,ndim_ptrs,ndim_matrix,ndim_matrices} with exact-size output',
                'forms': 'compact, square, square only_triu; advertised lengths from 3 helpers; distance_array_index for all a != b'},
        assumptions=['reference distances from vf/oracles.py (C01/C02/C11 tie them to the engines)',
                     'the diagonal of the square form is not judged when only_triu is requested (C06 does not define it)',
                     'documented refusals (list of lists in the C engine, third block argument with compact=False) are counted as refused'],
        t0=ctx.t0)


def replay(ctx, rec):
    snap = build.snapshot_ext()
    build.activate(snap)
    v = rec.get('first', rec)
    case = core.unjson(v['case'])
    E = Eng()
    acc = core.Acc()
    if 'series' not in case:
        print('index case', case)
        return 0
    tup = lambda s: tuple(tuple(tuple(p) if isinstance(p, list) else p for p in x) for x in s)
    series = tup(case['series'])
    check_collection(acc, E, case['family'], case['ndim'], series, case.get('settings') or {}, True)
    seen = set()
    for x in acc.viol:
        k = (x['check'], x['api'], x['engine'])
        if k in seen:
            continue
        seen.add(k)
        print('  ', x['check'], x['api'], x['engine'], x['case'].get('block'), x['case'].get('container'), 'expected', x['expected'], 'observed', x['observed'])
    if acc.nviol:
        print('VIOLATION property=%s replay=-' % PROP)
        return 1
    print('no violation')
    return 0
