"""C16 - DBA k-means returns k clusters covering all series, each series with a nearest mean.

Randomness is owned by the explorer: numpy.random.randint / numpy.random.choice / random.randint are replaced
(harness side) by functions that ask a choice tape; depth-first enumeration of the tape visits EVERY possible
outcome of every random draw (a superset of all seeds).  multiprocessing.Pool is the virtual pool of C07.
"""
import itertools
import math

from .. import build, core, oracles, univ
from ..core import inf
from .c07 import VirtualPool

PROP = 'C16'
LEAF_CAP = 20000


class Tape:
    """Choice tape: replays a prefix, then takes alternative 0 and records how many alternatives there were."""

    def __init__(self, prefix):
        self.prefix = list(prefix)
        self.taken = []
        self.arity = []

    def choose(self, n):
        k = len(self.taken)
        c = self.prefix[k] if k < len(self.prefix) else 0
        if c >= n:
            raise core.HarnessError('choice tape divergence: %d >= %d at position %d' % (c, n, k))
        self.taken.append(c)
        self.arity.append(n)
        return c


class Patched:
    """Context manager installing the explorer-owned random sources and the virtual pool."""

    def __init__(self, np, tape, parallel):
        self.np, self.tape, self.parallel = np, tape, parallel

    def __enter__(self):
        import random
        import multiprocessing
        np, tape = self.np, self.tape
        self.saved = (np.random.randint, np.random.choice, random.randint, random.random, multiprocessing.Pool)

        def randint(low, high=None, size=None):
            if high is None:
                low, high = 0, low
            assert size is None
            return int(low) + tape.choose(int(high) - int(low))

        def py_randint(a, b):
            return a + tape.choose(b - a + 1)

        def choice(a, size=None, replace=True, p=None):
            pop = list(range(a)) if isinstance(a, (int, np.integer)) else list(a)
            if p is None and size is not None and not replace and size == len(pop):
                pass
            if size is None:
                sup = pop if p is None else [x for x, w in zip(pop, p) if w > 0]
                return sup[tape.choose(len(sup))]
            m = int(size)
            if replace:
                raise NotImplementedError('choice with replacement')
            if p is not None:
                sup = [x for x, w in zip(pop, p) if w > 0]
                if len(sup) < m:
                    raise ValueError('Fewer non-zero entries in p than size')   # what numpy does
            else:
                sup = pop
                if len(sup) < m:
                    raise ValueError("Cannot take a larger sample than population when 'replace=False'")
            # every ordered m-subset of the support has non-zero probability
            alts = list(itertools.permutations(sup, m))
            return np.array(alts[tape.choose(len(alts))])

        np.random.randint = randint
        np.random.choice = choice
        random.randint = py_randint
        random.random = lambda: 0.5 * 0 + [0.0, 0.5, 0.999][tape.choose(3)]
        if self.parallel:
            VirtualPool.processes = 2
            VirtualPool.order = None
            VirtualPool.log = None
            multiprocessing.Pool = VirtualPool
        return self

    def __exit__(self, *a):
        import random
        import multiprocessing
        np = self.np
        np.random.randint, np.random.choice, random.randint, random.random, multiprocessing.Pool = self.saved
        return False


def ref_dist(a, b, opts, nd):
    return oracles.dtw_ref(a, b, window=opts.get('window'), penalty=opts.get('penalty'), ndim=nd > 1)


def fit_once(np, kmeans_mod, data, nd, cfg, prefix):
    tape = Tape(prefix)
    dopts = {}
    for k in ('window', 'penalty', 'use_c'):
        if cfg.get(k):
            dopts[k] = cfg[k]
    events = []

    def monitor(cd, stopped):
        events.append(bool(stopped))
        return True

    if nd == 1:
        series = [np.array(s, dtype=float) for s in data]
    else:
        series = [np.array(s, dtype=float) for s in data]
    model = kmeans_mod.KMeans(k=cfg['k'], max_it=cfg['max_it'], max_dba_it=cfg.get('max_dba_it', 3), drop_stddev=cfg.get('drop_stddev'),
                              dists_options=dopts, show_progress=False,
                              initialize_with_kmeanspp=cfg['init'] in ('kmeans++', 'sample1', 'sample2'),
                              initialize_sample_size={'sample1': 1, 'sample2': 2}.get(cfg['init']))
    with Patched(np, tape, cfg.get('parallel')):
        res = core.call(model.fit, series, use_parallel=bool(cfg.get('parallel')), monitor_distances=monitor)
    return tape, model, res, events


def judge(np, data, nd, cfg, model, res, events):
    n, k = len(data), cfg['k']
    if isinstance(res, core.Exc):
        return 'fit raised %r' % (res,)
    try:
        clusters, performed_it = res
        keys = sorted(int(x) for x in clusters.keys())
        sets = {int(x): set(int(i) for i in v) for x, v in clusters.items()}
    except Exception as e:  # noqa: BLE001
        return 'unusable result %r (%r)' % (res, e)
    if keys != list(range(k)):
        return 'cluster keys %r are not 0..k-1' % (keys,)
    allidx = [i for v in sets.values() for i in v]
    if sorted(allidx) != list(range(n)):
        return 'the index sets do not partition all series: %r' % (sets,)
    means = model.means
    if means is None or len(means) != k or any(m is None for m in means):
        return 'not k mean series: %r' % (means,)
    opts = {kk: cfg.get(kk) for kk in ('window', 'penalty')}
    mlist = []
    for m in means:
        m = np.asarray(m, dtype=float)
        mlist.append([tuple(p) for p in m.tolist()] if nd > 1 else m.tolist())
    for j, idxs in sets.items():
        for i in idxs:
            dj = ref_dist(data[i], mlist[j], opts, nd)
            best = min(ref_dist(data[i], mlist[l], opts, nd) for l in range(k))
            if dj > best + 1e-9 * max(1.0, best):
                return 'series %d is in cluster %d at distance %r although a mean at distance %r exists' % (i, j, dj, best)
    if performed_it > cfg['max_it'] + 1:
        return 'performed_it %r exceeds max_it + 1 = %r' % (performed_it, cfg['max_it'] + 1)
    if events.count(True) != 1 or not events[-1]:
        return 'monitor_distances: stopped=True must be reported exactly once, last (got %r)' % (events,)
    return None


def explore_fit(acc, np, kmeans_mod, data, nd, cfg):
    """Depth-first enumeration of the whole choice tree of one (data set, configuration)."""
    stack = [[]]
    leaves = 0
    repaired = False
    case0 = {'data': data, 'ndim': nd, 'config': cfg}
    tags = {'init': cfg['init'], 'k': cfg['k'], 'n': len(data), 'ndim': nd, 'use_c': bool(cfg.get('use_c')), 'parallel': bool(cfg.get('parallel')),
            'drop_stddev': cfg.get('drop_stddev') is not None, 'duplicates': len(set(data)) < len(data)}
    reported = False
    while stack:
        prefix = stack.pop()
        core.crumb(dict(case0, choices=prefix))
        tape, model, res, events = fit_once(np, kmeans_mod, data, nd, cfg, prefix)
        leaves += 1
        acc.trans(len(tape.taken) + 1)
        acc.valid()
        why = judge(np, data, nd, cfg, model, res, events)
        if why and not reported:
            reported = True     # one counterexample per (data set, configuration)
            acc.violation('postcondition', 'KMeans.fit', 'c' if cfg.get('use_c') else 'py', tags, dict(case0, choices=list(tape.taken)), 'k clusters partitioning all series, nearest mean each', why)
        if leaves == 1 and not why:
            # the same model object fitted a second time (default outcome of every draw): the postcondition, including the
            # iteration bound, holds for that fit as well
            events2 = []
            series = [np.array(s, dtype=float) for s in data]
            with Patched(np, Tape([]), cfg.get('parallel')):
                res2 = core.call(model.fit, series, use_parallel=bool(cfg.get('parallel')), monitor_distances=lambda cd, stopped: (events2.append(bool(stopped)), True)[1])
            acc.trans()
            acc.valid()
            why2 = judge(np, data, nd, cfg, model, res2, events2)
            if why2 and not reported:
                reported = True
                acc.violation('postcondition', 'KMeans.fit', 'c' if cfg.get('use_c') else 'py', dict(tags, refit=True), dict(case0, choices=list(tape.taken), refit=True),
                              'k clusters partitioning all series, nearest mean each (second fit on the same model object)', why2)
        if leaves >= LEAF_CAP:
            acc.cap('choice_tree_leaf_cap')
            break
        for i in range(len(prefix), len(tape.taken)):
            for alt in range(1, tape.arity[i]):
                stack.append(tape.taken[:i] + [alt])
    return leaves


OPTION_SETS = [
    {},
    {'window': 1},
    {'penalty': 0.5},
    {'drop_stddev': 1},
    {'drop_stddev': 3, 'window': 1},
    {'use_c': True},
    {'use_c': True, 'penalty': 0.5, 'drop_stddev': 1},
    {'parallel': True},
    {'parallel': True, 'use_c': True, 'window': 1},
    {'drop_stddev': 0.5},                      # trims already in clusters of three (mean + 0.5 std)
    {'use_c': True, 'drop_stddev': 0.5},
]


def universe(tier, seed, shard, nshards):
    thorough = tier == 'thorough'
    A2 = univ.alphabet(univ.BASE2, seed)
    pool = univ.series(A2, 2, 3)
    idx = 0
    for n in (3, 4, 5):
        cnt = 0
        for data in itertools.combinations_with_replacement(pool, n):
            cnt += 1
            step = ({3: 4, 4: 110, 5: 2100} if not thorough else {3: 1, 4: 14, 5: 400})[n]
            if cnt % step:
                continue
            for k in (2, 3):
                if k >= n:
                    continue
                for init in ('kmeans++', 'random', 'sample1', 'sample2'):
                    osets = OPTION_SETS if (n == 3 or thorough) else [OPTION_SETS[0], OPTION_SETS[3], OPTION_SETS[6], OPTION_SETS[8], OPTION_SETS[9]]
                    if n == 5 and not thorough:
                        osets = [OPTION_SETS[0], OPTION_SETS[6], OPTION_SETS[7]]
                    for oi, o in enumerate(osets):
                        for max_it in (1, 2, 10):
                            if max_it != 10 and (n > 3 or o not in (OPTION_SETS[0], OPTION_SETS[3], OPTION_SETS[5])):
                                continue
                            if n == 5 and not thorough and (k == 3 and init != 'kmeans++'):
                                continue
                            idx += 1
                            if idx % nshards != shard:
                                continue
                            yield 'U1-1d-n%d' % n, 1, data, dict(o, k=k, init=init, max_it=max_it)
    # one series repeated plus one or two outliers: the shape on which drop_stddev trims (a cluster needs >= 3 members for that)
    cnt = 0
    for n in (4, 5):
        for base in pool:
            for out in pool:
                if out == base:
                    continue
                cnt += 1
                if n == 5 and cnt % (4 if not thorough else 1):
                    continue
                data = tuple(sorted((base,) * (n - 1) + (out,)))
                for init in ('random', 'kmeans++'):
                    for o in (OPTION_SETS[9], OPTION_SETS[6]):
                        idx += 1
                        if idx % nshards != shard:
                            continue
                        yield 'U3-outlier-n%d' % n, 1, data, dict(o, k=2, init=init, max_it=10)
    # three copies + a near and a far series: at convergence the near one sits in the big cluster and is trimmed by drop_stddev
    for bi, base in enumerate(pool):
        for dn in (1, 5):
            for df in (3, 7):
                near, far = pool[(bi + dn) % len(pool)], pool[(bi + df) % len(pool)]
                if len(set((base, near, far))) < 3:
                    continue
                data = tuple(sorted((base, base, base, near, far)))
                for init in ('random', 'kmeans++'):
                    for o in (OPTION_SETS[9], OPTION_SETS[10]):
                        idx += 1
                        if idx % nshards != shard:
                            continue
                        yield 'U3-outlier-n5b', 1, data, dict(o, k=2, init=init, max_it=10)
    # richer values: 3-letter alphabet, lengths 1..3 (distances spread enough for drop_stddev to trim inside a converged cluster)
    A3 = univ.alphabet(univ.BASE3, seed)
    pool3 = univ.series(A3, 1, 3)
    cnt = 0
    for data in itertools.combinations_with_replacement(pool3, 4):
        cnt += 1
        if cnt % (1500 if not thorough else 150):
            continue
        for init in ('random', 'kmeans++'):
            for o in (OPTION_SETS[9], OPTION_SETS[10], OPTION_SETS[0]):
                idx += 1
                if idx % nshards != shard:
                    continue
                yield 'U4-3letter-n4', 1, data, dict(o, k=2, init=init, max_it=10)
    pool2 = univ.series_nd(A2, 2, 2, 2)
    cnt = 0
    for data in itertools.combinations_with_replacement(pool2, 3):
        cnt += 1
        if cnt % (8 if not thorough else 1):
            continue
        for init in ('kmeans++', 'random'):
            for o in ({}, {'use_c': True}, {'parallel': True}):
                idx += 1
                if idx % nshards != shard:
                    continue
                yield 'U2-ndim2', 2, data, dict(o, k=2, init=init, max_it=10)


def worker(acc, shard, nshards, tier, seed):
    import numpy as np
    import logging
    from dtaidistance.clustering import kmeans as kmeans_mod
    from dtaidistance import dtw
    assert dtw.dtw_cc is not None
    logging.getLogger('be.kuleuven.dtai.distance').setLevel(logging.ERROR)
    import builtins
    import io
    import contextlib
    for sub, nd, data, cfg in universe(tier, seed, shard, nshards):
        with contextlib.redirect_stdout(io.StringIO()):
            leaves = explore_fit(acc, np, kmeans_mod, data, nd, cfg)
        acc.case(sub, nontrivial=(len(set(data)) < len(data) or leaves > 1))
        acc.count('fits', leaves)
        acc.count('fits_' + sub, leaves)
        acc.extra['max_leaves_per_tree'] = max(acc.extra.get('max_leaves_per_tree', 0), leaves)
        if not acc.samples or acc.states % 211 == 1:
            acc.sample({'data': data, 'config': cfg, 'leaves': leaves})


def run(ctx):
    snap = build.snapshot_ext()
    build.activate(snap)
    acc = core.run_sharded(worker, nshards=core.NWORKERS * 8, extra=(ctx.tier, ctx.seed))
    mx = acc.extra.get('max_leaves_per_tree')
    return core.finish(
        PROP, ctx.tier, ctx.seed, acc,
        rule='for every (data set, configuration) the COMPLETE tree of random outcomes (numpy.random.randint/choice, random.randint owned by the explorer; for choice without replacement every '
             'ordered subset of the support) is enumerated depth-first; a state is one (data set, configuration), validated traces are complete fits; non-trivial = duplicates in the data set or more than one leaf',
        bounds={'data': 'multisets of n = 3 (every 4th; thorough all), 4 (every 110th; thorough every 14th), 5 (every 2100th; thorough every 400th) series over a 2-letter alphabet with lengths 2..3; outlier data sets: one series n-1 times plus one different series, n = 4 (all 132) and 5 (every 4th; thorough all) with drop_stddev 0.5 / 1 in both engines; three copies + a near + a far series (n = 5) with drop_stddev 0.5; every 1500th (thorough 150th) multiset of 4 series over the 3-letter alphabet with lengths 1..3, drop_stddev 0.5 / None; ndim 2: multisets of 3 series of 2 points',
                'k': '2, 3 (< n)', 'init': 'k-means++, random, initialize_sample_size 1 and 2', 'options': '%d option sets over window, penalty, drop_stddev, use_c, parallel (virtual pool); max_it 1, 2, 10' % len(OPTION_SETS),
                'leaf_cap': LEAF_CAP, 'refit': 'after the first leaf of every tree the same model object is fitted again (default outcome of every draw) and judged the same way'},
        assumptions=['all outcomes of non-zero probability are enumerated, which is a superset of all seeds; numpy.random.choice(range(n), k, replace=False) in the random initialisation is only used for its length',
                     'nearest-mean check uses the reference DTW with 1e-9 relative slack (means are not dyadic)', 'empty index sets are accepted (C16 asks for k index sets keyed 0..k-1 that partition all series)',
                     'max_leaves_per_tree=%r' % (mx,)],
        t0=ctx.t0)


def replay(ctx, rec):
    snap = build.snapshot_ext()
    build.activate(snap)
    import numpy as np
    import logging
    from dtaidistance.clustering import kmeans as kmeans_mod
    logging.getLogger('be.kuleuven.dtai.distance').setLevel(logging.ERROR)
    v = rec.get('first', rec)
    c = core.unjson(v['case'])
    tup = lambda s: tuple(tuple(tuple(p) if isinstance(p, list) else p for p in x) for x in s)
    data = tup(c['data'])
    tape, model, res, events = fit_once(np, kmeans_mod, data, c['ndim'], c['config'], c.get('choices', []))
    why = judge(np, data, c['ndim'], c['config'], model, res, events)
    print('choices', tape.taken, 'result', res if isinstance(res, core.Exc) else res, 'why', why)
    if why:
        print('VIOLATION property=%s replay=-' % PROP)
        return 1
    return 0
