"""C01 - pure-Python DTW distance == optimum over all admissible warping paths.

Bounded-exhaustive input x configuration exploration of dtaidistance.dtw.distance against
the definitional reference (vf.oracles); NumPy importable and not importable.
"""
import array
import itertools
import os

from .. import build, core, oracles, univ
from ..core import inf

PROP = 'C01'


class CubeDist:
    """User-supplied inner distance object: |x-y|^3, result = cube root, inner_val = x^3."""

    @staticmethod
    def inner_dist(x, y):
        return abs(x - y) ** 3

    @staticmethod
    def result(x):
        return x ** (1.0 / 3.0)

    @staticmethod
    def inner_val(x):
        return x * x * x


INNERS = {'sq': 'squared euclidean', 'eu': 'euclidean', 'cube': CubeDist}


def kwargs_of(case):
    kw = {}
    for k in ('window', 'penalty', 'psi', 'max_step', 'max_length_diff'):
        if case.get(k) is not None:
            kw[k] = case[k] if k != 'psi' or isinstance(case[k], int) else tuple(case[k])
    kw['inner_dist'] = INNERS[case.get('inner', 'sq')]
    return kw


def expected_of(case):
    psi = case.get('psi')
    if psi is not None and not isinstance(psi, int):
        psi = tuple(psi)
    return oracles.dtw_ref(case['s1'], case['s2'], window=case.get('window'), penalty=case.get('penalty'),
                           psi=psi, max_step=case.get('max_step'), max_length_diff=case.get('max_length_diff'),
                           inner_dist=INNERS[case.get('inner', 'sq')])


def tags_of(case, nonumpy):
    psi = oracles.norm_psi(case.get('psi') if case.get('psi') is None or isinstance(case.get('psi'), int) else tuple(case['psi']))
    r, c = len(case['s1']), len(case['s2'])
    w = case.get('window')
    return {'inner': case.get('inner', 'sq'), 'window_lt_full': bool(w is not None and w < max(r, c)),
            'penalty_on': bool(case.get('penalty')), 'psi_begin': bool(psi[0] or psi[2]), 'psi_end': bool(psi[1] or psi[3]),
            'max_step_on': bool(case.get('max_step')), 'mld_on': case.get('max_length_diff') is not None,
            'numpy': not nonumpy}


def conv(s, container):
    if container == 'array':
        return array.array('d', s)
    if container == 'tuple':
        return tuple(s)
    return list(s)


def check_case(acc, dtw, case, nonumpy, P_cache=None):
    """One case: run the implementation, compare with the reference."""
    exp = expected_of(case)
    got = core.call(dtw.distance, conv(case['s1'], case.get('container')), conv(case['s2'], case.get('container')), **kwargs_of(case))
    acc.trans()
    acc.valid()
    if isinstance(got, core.Exc):
        ok = False
    else:
        ok = core.ulp_close(got, exp, 4, 1e-12)
    acc.outcome(got if not isinstance(got, core.Exc) else repr(got))
    if not ok:
        acc.violation('value', 'dtw.distance', 'py', tags_of(case, nonumpy), case, exp, got if not isinstance(got, core.Exc) else repr(got))
    return exp


def universe(tier, seed, shard, nshards):
    """Yield (sub, case) deterministically, simplest first; sharded by series-pair index."""
    A = univ.alphabet(univ.BASE3, seed)
    thorough = tier == 'thorough'
    # ---- U1: all values, core option cross
    sers = univ.series(A, 1, 4 if thorough else 3)
    idx = 0
    for s1 in sers:
        for s2 in sers:
            idx += 1
            if idx % nshards != shard:
                continue
            r, c = len(s1), len(s2)
            big = max(r, c) > 3
            wins = [None, 1, 2] + ([3] if thorough else [])
            psis = univ.psi_options(r, c, vals=('0', '1', 'len'), ints=(1, 2)) if not big else \
                [None, 1, (0, 1, 0, 0), (0, 0, 0, 1), (1, 0, 0, 0), (0, 0, 1, 0), (0, r, 0, 0), (0, 0, 0, c), (1, 1, 1, 1)]
            for w in wins:
                for pen in (None, 0.5):
                    for ms in (None, univ.max_step2(seed)):
                        for inner in ('sq', 'eu'):
                            for psi in psis:
                                yield 'U1-values', {'s1': s1, 's2': s2, 'window': w, 'penalty': pen, 'psi': psi,
                                                    'max_step': ms, 'inner': inner}
            # ---- U2: the remaining options on the same values
            if not big:
                for mld in (0, 1):
                    for w in (None, 1):
                        for psi in (None, 1):
                            if psi is not None and oracles.psi_degenerate(psi, r, c):
                                continue
                            yield 'U2-options', {'s1': s1, 's2': s2, 'window': w, 'psi': psi, 'max_length_diff': mld}
                for w in (None, 1):
                    # the 0 encodings of 'option off' (penalty, psi) must behave like None
                    yield 'U2-options', {'s1': s1, 's2': s2, 'window': w, 'penalty': 0, 'psi': 0}
                for w in (None, 1, 2, 3):
                    for pen in (None, 2, 0.25):
                        for ms in (None, 1.2, 3):
                            for psi in (None, 1, (0, 1, 0, 1), (1, 0, 1, 0)):
                                if psi is not None and (oracles.psi_degenerate(psi, r, c) or max(oracles.norm_psi(psi)[:2]) > r or max(oracles.norm_psi(psi)[2:]) > c):
                                    continue
                                yield 'U2-options', {'s1': s1, 's2': s2, 'window': w, 'penalty': pen, 'psi': psi,
                                                     'max_step': ms, 'inner': 'cube', 'container': 'array'}
                                if pen in (2, 0.25) or ms == 3 or w == 3:
                                    yield 'U2-options', {'s1': s1, 's2': s2, 'window': w, 'penalty': pen, 'psi': psi,
                                                         'max_step': ms, 'inner': 'sq', 'container': 'tuple'}
    # ---- U3: all shapes x windows x psi, values from the catalogue
    L = 7 if thorough else 5
    cat = univ.CAT_PAIRS_THOROUGH if thorough else univ.CAT_PAIRS_QUICK
    vals = ('0', '1', '2', 'len') if thorough else ('0', '1', 'len')
    for r in range(1, L + 1):
        for c in range(1, L + 1):
            if max(r, c) <= 3:
                continue  # covered completely by U1
            for w in univ.windows(r, c):
                idx += 1
                if idx % nshards != shard:
                    continue
                for psi in univ.psi_options(r, c, vals=vals, ints=(1, 2)):
                    for (k1, k2) in cat:
                        s1 = univ.catalogue(r, A, k1)
                        s2 = univ.catalogue(c, A, k2)
                        for pen, ms in ((None, None), (0.5, None), (None, 1.2), (0.5, 1.2)):
                            yield 'U3-shapes', {'s1': s1, 's2': s2, 'window': w, 'penalty': pen, 'psi': psi,
                                                'max_step': ms, 'inner': 'sq' if (k1 + k2) % 2 == 0 else 'eu',
                                                'container': 'array'}


def universe_long(tier, seed, shard, nshards):
    A = univ.alphabet(univ.BASE3, seed)
    idx = 0
    thorough = tier == 'thorough'
    top = 21 if thorough else 15
    for r in range(1, top):
        for c in range(1, top):
            if max(r, c) < 7:
                continue
            idx += 1
            if idx % nshards != shard:
                continue
            for w in ((1, 2, 3, 4, 5, 7) if thorough else (1, 2, 3, 4)):
                for psi in (None, 1, 2, (0, 0, 0, 3), (0, 3, 0, 0), (3, 0, 0, 0), (0, 0, 3, 0), (0, 0, 0, c), (0, r, 0, 0), (r, 0, 0, 0), (0, 0, c, 0)) + \
                        (((5, 0, 0, 0), (0, 0, 5, 0), (0, 5, 0, 0), (0, 0, 0, 5), (4, 4, 4, 4)) if thorough else ()):
                    if psi is not None:
                        p = oracles.norm_psi(psi)
                        if oracles.psi_degenerate(p, r, c) or max(p[:2]) > r or max(p[2:]) > c:
                            continue
                    for (k1, k2) in ((0, 3), (5, 0), (1, 2)):
                        for pen, ms in ((None, None), (0.5, None), (None, 1.2)):
                            yield 'U4-long', {'s1': univ.catalogue(r, A, k1), 's2': univ.catalogue(c, A, k2), 'window': w, 'penalty': pen, 'psi': psi,
                                              'max_step': ms, 'inner': 'sq' if (r + c) % 2 else 'eu'}


def worker(acc, shard, nshards, tier, seed, nonumpy):
    from dtaidistance import dtw
    plain_cache = {}
    for sub, case in itertools.chain(universe(tier, seed, shard, nshards), universe_long(tier, seed, shard, nshards)):
        exp = check_case(acc, dtw, case, nonumpy)
        key = (case['s1'], case['s2'], case.get('inner', 'sq'))
        plain = plain_cache.get(key)
        if plain is None:
            if len(plain_cache) > 2000:
                plain_cache.clear()
            plain = plain_cache[key] = oracles.dtw_ref(case['s1'], case['s2'], inner_dist=INNERS[case.get('inner', 'sq')])
        acc.case(sub, nontrivial=(exp == inf or exp != plain))
        if not acc.samples or acc.states % 50021 == 1:
            acc.sample(case)


def child_nonumpy(args):
    """Entry point of the NumPy-less interpreter."""
    snap = build.snapshot_py()
    build.activate(snap)
    import dtaidistance.dtw as d
    assert d.np is None, 'numpy still importable in the no-numpy child'
    return core.run_sharded(worker, extra=(args['tier'], args['seed'], True))


def run(ctx):
    snap = build.snapshot_py()
    build.activate(snap)
    n_self = oracles.self_check(univ.alphabet(univ.BASE3, ctx.seed), 3 if ctx.thorough else 2)
    acc = core.run_sharded(worker, extra=(ctx.tier, ctx.seed, False))
    acc2 = core.run_child('c01', 'child_nonumpy', {'VERIF_BLOCK_NUMPY': '1', 'DTAIDISTANCE_TESTWITHOUTNUMPY': '1'},
                          {'tier': ctx.tier, 'seed': ctx.seed})
    for k in list(acc2.sub):
        acc2.sub[k + '/no-numpy'] = acc2.sub.pop(k)
    acc.merge(acc2)
    A = univ.alphabet(univ.BASE3, ctx.seed)
    return core.finish(
        PROP, ctx.tier, ctx.seed, acc,
        rule='every case of the stated universe is generated once (product enumeration, no sampling); a case is non-trivial when '
             'window/psi/penalty/max_step/max_length_diff change the reference optimum w.r.t. unconstrained DTW or make it infinite',
        bounds={'alphabet': list(A), 'U1': 'all series pairs with lengths 1..%d x window{None,1,2%s} x penalty{None,.5} x max_step{None, 2|a| (separates squared from unsquared comparisons)} x inner{sq,eu} x psi{None,1,2,{0,1,len}^4}' % (4 if ctx.thorough else 3, ',3' if ctx.thorough else ''),
                'U2': 'lengths 1..3 x max_length_diff{0,1}; user inner-distance object and penalty{2,.25}, max_step 3, window 3 crosses; list/tuple/array.array containers',
                'U3': 'all shapes up to %dx%d x window None,1..max+1 x psi{None,1,2,%s^4} x catalogue pairs x penalty/max_step on/off' % ((7, 7, '{0,1,2,len}') if ctx.thorough else (5, 5, '{0,1,len}')),
                'U4': 'long thin bands: every shape up to %s with max >= 7, windows %s, %d psi forms, 3 value pairs' % (('20x20', '1..5,7', 16) if ctx.thorough else ('14x14', '1..4', 11)),
                'numpy': 'whole universe twice: NumPy importable, and blocked (sys.modules[numpy]=None, DTAIDISTANCE_TESTWITHOUTNUMPY=1)',
                'oracle_self_check_cases': n_self},
        assumptions=['reference = min over explicitly enumerated admissible paths; the cell recursion used for speed is compared with the explicit enumeration on %d cases at the start of this run' % n_self,
                     'values are dyadic rationals so all sums are exact; comparison tolerance 4 ulp / 1e-12 relative',
                     'degenerate psi combinations admitting the empty alignment are outside the quantifier and not generated'],
        t0=ctx.t0)


def replay(ctx, rec):
    snap = build.snapshot_py()
    build.activate(snap)
    from dtaidistance import dtw
    v = rec.get('first', rec)
    case = core.unjson(v['case'])
    case['s1'] = tuple(case['s1'])
    case['s2'] = tuple(case['s2'])
    acc = core.Acc()
    exp = check_case(acc, dtw, case, False)
    print('case=%r expected=%r violations=%d' % (case, exp, acc.nviol))
    if acc.nviol:
        print('VIOLATION property=%s replay=%s' % (PROP, 'stdin'))
        return 1
    return 0
