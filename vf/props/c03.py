"""C03 - early abandoning (max_dist, use_pruning) never changes a result.

For every case the complete *threshold set* is enumerated: one threshold in every gap between
consecutive distinct values among {accumulated optimum of any in-band cell, the distance, the
Euclidean bound}, one below and one above - i.e. every threshold at which the pruning logic can
take a different branch.  Oracle: the same routine without max_dist (two-run metamorphic).
"""
import array

from .. import build, core, oracles, univ
from ..core import inf

PROP = 'C03'
INNERS = {'sq': 'squared euclidean', 'eu': 'euclidean'}


def base_kw(case):
    kw = {}
    for k in ('window', 'penalty', 'psi', 'max_step'):
        v = case.get(k)
        if v is not None:
            kw[k] = tuple(v) if isinstance(v, list) else v
    kw['inner_dist'] = INNERS[case['inner']]
    return kw


def thresholds(case):
    """Mid-points between consecutive distinct candidate values (transformed domain) + one below, one above."""
    I = oracles.INNER[INNERS[case['inner']]]
    s1, s2 = case['s1'], case['s2']
    r, c = len(s1), len(s2)
    psi = oracles.norm_psi(case.get('psi') if not isinstance(case.get('psi'), list) else tuple(case['psi']))
    P = oracles.pd_matrix(s1, s2, I.pd)
    pen = I.ival(case['penalty']) if case.get('penalty') else 0.0
    ms = I.ival(case['max_step']) if case.get('max_step') else inf
    D = oracles.cells(P, r, c, case.get('window'), pen, psi, ms)
    d = oracles.cells_value(D, r, c, psi)
    vals = set(I.result(v) for v in D.values())
    if d < inf:
        vals.add(I.result(d))
    vals.add(oracles.ed_ref(s1, s2, INNERS[case['inner']]))
    vals = sorted(v for v in vals if v < inf)
    if not vals:
        return [1.0], d, D
    out = []
    lo = vals[0]
    if lo > 1e-3:
        out.append(lo / 2.0)
    for a, b in zip(vals, vals[1:]):
        if b - a > 1e-6 * max(1.0, b):
            out.append((a + b) / 2.0)
    out.append(vals[-1] + 0.75)
    return out, (I.result(d) if d < inf else inf), D


class Routes:
    def __init__(self, with_c=True):
        import numpy as np
        from dtaidistance import dtw
        self.np, self.dtw = np, dtw
        self.with_c = with_c and dtw.dtw_cc is not None
        if with_c:
            assert dtw.dtw_cc is not None

    def names(self, pruning=False):
        n = ['py.distance', 'py.wps', 'py.wps_int', 'py.matrix']
        if self.with_c:
            n += ['c.distance', 'c.wps', 'c.wps_int', 'c.wps_compact', 'c.matrix']
        return n

    def run(self, name, case, extra):
        kw = base_kw(case)
        kw.update(extra)
        np, dtw = self.np, self.dtw
        eng, route = name.split('.')
        if eng == 'py':
            a1, a2 = list(case['s1']), list(case['s2'])
        else:
            a1, a2 = array.array('d', case['s1']), array.array('d', case['s2'])
        if name == 'py.distance':
            return core.call(dtw.distance, a1, a2, **kw)
        if name == 'c.distance':
            return core.call(dtw.distance_fast, a1, a2, **kw)
        if route in ('wps', 'wps_int', 'wps_compact'):
            f = dtw.warping_paths if eng == 'py' else dtw.warping_paths_fast
            if eng == 'c':
                a1, a2 = np.array(case['s1'], dtype=float), np.array(case['s2'], dtype=float)
            ex = {}
            if route == 'wps_int':
                ex['keep_int_repr'] = True
            if route == 'wps_compact':
                ex['compact'] = True
            r = core.call(f, a1, a2, **kw, **ex)
            if isinstance(r, core.Exc):
                return r
            d = r[0]
            if route == 'wps_int' and d != inf:
                I = oracles.INNER[INNERS[case['inner']]]
                d = I.result(d) if d >= 0 else d
            return float(d)
        if route == 'matrix':
            # without psi the pair is the LAST pair of a 4-series collection, so that a bound left behind by earlier pairs reaches it
            lead = case.get('psi') is None
            if eng == 'py':
                coll = [a1[:1], a2[:1], a1, a2] if lead else [a1, a2]
                m = core.call(dtw.distance_matrix, coll, compact=True, **kw)
            else:
                n1, n2 = np.array(case['s1'], dtype=float), np.array(case['s2'], dtype=float)
                coll = [n1[:1].copy(), n2[:1].copy(), n1, n2] if lead else [n1, n2]
                m = core.call(dtw.distance_matrix, coll, compact=True, use_c=True, **kw)
            return m if isinstance(m, core.Exc) else m[5 if lead else 0]
        raise KeyError(name)


def tags_of(case, name, kind, relation=None):
    psi = oracles.norm_psi(case.get('psi') if not isinstance(case.get('psi'), list) else tuple(case['psi']))
    r, c = len(case['s1']), len(case['s2'])
    w = case.get('window')
    t = {'route': name.split('.')[1], 'kind': kind, 'inner': case['inner'],
         'window_lt_full': bool(w and w < max(r, c)), 'penalty_on': bool(case.get('penalty')),
         'psi_begin': bool(psi[0] or psi[2]), 'psi_end': bool(psi[1] or psi[3]), 'max_step_on': bool(case.get('max_step')),
         'equal_len': r == c}
    if relation:
        t['relation'] = relation
    return t


def check_case(acc, R, case, do_prune):
    ths, dref, D = thresholds(case)
    I = oracles.INNER[INNERS[case['inner']]]
    ed = oracles.ed_ref(case['s1'], case['s2'], INNERS[case['inner']])
    cellvals = sorted(I.result(v) for v in D.values())
    pruned_something = False
    for name in R.names():
        base = R.run(name, case, {})
        acc.trans()
        if isinstance(base, core.Exc):
            acc.count('unbounded_call_raised')
            continue
        for m in ths:
            got = R.run(name, case, {'max_dist': m})
            acc.trans()
            acc.valid()
            if base == inf or base > m * (1 + 1e-9):
                exp, rel = inf, 'above'
            elif base < m * (1 - 1e-9):
                exp, rel = base, 'below'
            else:
                continue
            ok = (not isinstance(got, core.Exc)) and (got == exp or (exp != inf and core.ulp_close(got, exp, 4)))
            if not ok:
                acc.violation('max_dist', name, name.split('.')[0], tags_of(case, name, 'max_dist', rel),
                              dict(case, max_dist=m), exp, repr(got) if isinstance(got, core.Exc) else got)
            if cellvals and cellvals[-1] > m:
                pruned_something = True
        if do_prune:
            got = R.run(name, case, {'use_pruning': True})
            acc.trans()
            acc.valid()
            ok = (not isinstance(got, core.Exc)) and (got == base or core.ulp_close(got, base, 4))
            if not ok:
                t = tags_of(case, name, 'use_pruning')
                t['dtw_eq_ub'] = bool(dref != inf and core.ulp_close(dref, ed, 8))
                acc.violation('use_pruning', name, name.split('.')[0], t, dict(case, use_pruning=True), base,
                              repr(got) if isinstance(got, core.Exc) else got)
            if cellvals and cellvals[-1] > ed:
                pruned_something = True
            # both at once: the Euclidean bound and an explicit threshold
            for m in (ths[::2] if name in ('py.distance', 'c.distance', 'c.matrix', 'c.wps') else ()):
                got = R.run(name, case, {'use_pruning': True, 'max_dist': m})
                acc.trans()
                acc.valid()
                if base != inf and base < m * (1 - 1e-9):
                    exp = base
                else:
                    continue    # above the threshold the documentation lets use_pruning override max_dist: not judged
                ok = (not isinstance(got, core.Exc)) and (got == exp or core.ulp_close(got, exp, 4))
                if not ok:
                    t = tags_of(case, name, 'use_pruning+max_dist', 'below')
                    acc.violation('pruning_and_max_dist', name, name.split('.')[0], t, dict(case, use_pruning=True, max_dist=m), exp,
                                  repr(got) if isinstance(got, core.Exc) else got)
    acc.outcome(dref)
    return pruned_something


def universe(tier, seed, shard, nshards):
    A = univ.alphabet(univ.BASE3, seed)
    thorough = tier == 'thorough'
    sers = univ.series(A, 1, 4 if thorough else 3)
    idx = 0
    for s1 in sers:
        for s2 in sers:
            idx += 1
            if idx % nshards != shard:
                continue
            r, c = len(s1), len(s2)
            if max(r, c) > 3 and (s1 > s2):
                continue   # thorough: long pairs in one order only (the swapped order is C10's job)
            psis = [None, 1, (0, 1, 0, 1), (1, 0, 1, 0), (0, 0, 0, c), (0, r, 0, 0), (1, 1, 0, 0), (1, 0, 0, 0), (0, 0, 1, 0)]
            for w in (None, 1, 2):
                for pen in (None, 0.5):
                    for ms in (None, univ.max_step2(seed)):
                        for inner in ('sq', 'eu'):
                            for psi in psis:
                                if psi is not None:
                                    p = oracles.norm_psi(psi)
                                    if oracles.psi_degenerate(p, r, c) or max(p[:2]) > r or max(p[2:]) > c:
                                        continue
                                yield 'U1-values', {'s1': s1, 's2': s2, 'window': w, 'penalty': pen, 'psi': psi, 'max_step': ms, 'inner': inner}
    L = 6 if thorough else 5
    cat = univ.CAT_PAIRS_THOROUGH if thorough else univ.CAT_PAIRS_QUICK
    for r in range(1, L + 1):
        for c in range(1, L + 1):
            if max(r, c) <= 3:
                continue
            for w in univ.windows(r, c, extra=0):
                idx += 1
                if idx % nshards != shard:
                    continue
                for psi in (None, 1, 2, (0, 1, 0, 1), (1, 0, 1, 0), (0, 0, 0, c), (0, r, 0, 0), (0, 2, 0, 0), (0, 0, 0, 2), (2, 0, 0, 0), (0, 0, 2, 0), (r, 0, 0, 0), (0, 0, c, 0)):
                    if psi is not None:
                        p = oracles.norm_psi(psi)
                        if oracles.psi_degenerate(p, r, c) or max(p[:2]) > r or max(p[2:]) > c:
                            continue
                    for (k1, k2) in (cat if thorough else cat[:4]):
                        for pen, ms in ((None, None), (0.5, None), (None, 1.2)):
                            yield 'U3-shapes', {'s1': univ.catalogue(r, A, k1), 's2': univ.catalogue(c, A, k2), 'window': w,
                                                'penalty': pen, 'psi': psi, 'max_step': ms, 'inner': 'sq' if (k1 + k2) % 2 == 0 else 'eu'}


def check_ndim(acc, E, s1, s2, w, psi, inner):
    """Multivariate series: max_dist in the gaps around the distance and the Euclidean bound, and use_pruning, through
    dtw_ndim.distance / warping_paths in both engines (reference: vector point distances, vf.oracles)."""
    np, dn = E['np'], E['dtw_ndim']
    name = INNERS[inner]
    d = oracles.dtw_ref(s1, s2, window=w, psi=psi, inner_dist=name, ndim=True)
    ed = oracles.ed_ref(s1, s2, name, ndim=True)
    a1, a2 = np.array(s1, dtype=float), np.array(s2, dtype=float)
    kw = {'inner_dist': name}
    if w is not None:
        kw['window'] = w
    if psi is not None:
        kw['psi'] = psi
    case = {'s1': s1, 's2': s2, 'ndim': len(s1[0]), 'window': w, 'psi': psi, 'inner': inner}
    vals = sorted(set(v for v in (d, ed) if v < inf))
    ths = ([vals[0] / 2.0] if vals and vals[0] > 1e-3 else []) + [(a + b) / 2.0 for a, b in zip(vals, vals[1:]) if b - a > 1e-6] + [(vals[-1] if vals else 0.0) + 0.75]
    routes = [('py.distance', lambda **k: dn.distance(a1, a2, **k)), ('c.distance', lambda **k: dn.distance_fast(a1, a2, **k)),
              ('py.wps', lambda **k: dn.warping_paths(a1, a2, **k)[0]), ('c.wps', lambda **k: dn.warping_paths_fast(a1, a2, **k)[0]),
              ('c.matrix', lambda **k: dn.distance_matrix([a1[:1].copy(), a2[:1].copy(), a1, a2] if psi is None else [a1, a2], compact=True, use_c=True, **k)[5 if psi is None else 0])]
    for rname, f in routes:
        eng = rname.split('.')[0]
        tags = {'route': rname.split('.')[1], 'ndim': case['ndim'], 'inner': inner, 'equal_len': len(s1) == len(s2), 'window_lt_full': bool(w), 'psi_on': psi is not None}
        for m in ths:
            got = core.call(f, max_dist=m, **kw)
            acc.trans()
            acc.valid()
            if d == inf or d > m * (1 + 1e-9):
                exp = inf
            elif d < m * (1 - 1e-9):
                exp = d
            else:
                continue
            if isinstance(got, core.Exc) or not (got == exp or (exp != inf and core.ulp_close(float(got), exp, 4, 1e-12))):
                acc.violation('max_dist', 'ndim.' + rname, eng, dict(tags, kind='max_dist'), dict(case, max_dist=m), exp, repr(got) if isinstance(got, core.Exc) else float(got))
        got = core.call(f, use_pruning=True, **kw)
        acc.trans()
        acc.valid()
        if isinstance(got, core.Exc) or not (got == d or (d != inf and core.ulp_close(float(got), d, 4, 1e-12))):
            acc.violation('use_pruning', 'ndim.' + rname, eng, dict(tags, kind='use_pruning', dtw_eq_ub=bool(d != inf and core.ulp_close(d, ed, 8))),
                          dict(case, use_pruning=True), d, repr(got) if isinstance(got, core.Exc) else float(got))
    return d < ed


def universe_ndim(tier, seed, shard, nshards):
    A2 = univ.alphabet(univ.BASE2, seed)
    sers = univ.series_nd(A2, 2, 1, 3)
    idx = 0
    for s1 in sers:
        for s2 in sers:
            if len(s1) + len(s2) > (6 if tier == 'thorough' else 5):
                continue
            idx += 1
            if idx % nshards != shard:
                continue
            for w in (None, 1):
                for psi in (None, 1):
                    if psi is not None and oracles.psi_degenerate(oracles.norm_psi(psi), len(s1), len(s2)):
                        continue
                    for inner in ('sq', 'eu'):
                        yield s1, s2, w, psi, inner


def worker(acc, shard, nshards, tier, seed):
    R = Routes()
    import numpy as np
    from dtaidistance import dtw_ndim
    E = {'np': np, 'dtw_ndim': dtw_ndim}
    for s1, s2, w, psi, inner in universe_ndim(tier, seed, shard, nshards):
        nt = check_ndim(acc, E, s1, s2, w, psi, inner)
        acc.case('U4-ndim', nontrivial=nt)
    for sub, case in universe(tier, seed, shard, nshards):
        r, c = len(case['s1']), len(case['s2'])
        do_prune = case.get('max_step') is None and (case.get('penalty') is None or r == c)
        nt = check_case(acc, R, case, do_prune)
        acc.case(sub, nontrivial=nt)
        if not acc.samples or acc.states % 9973 == 1:
            acc.sample(case)


def run(ctx):
    snap = build.snapshot_ext()
    build.activate(snap)
    acc = core.run_sharded(worker, extra=(ctx.tier, ctx.seed))
    return core.finish(
        PROP, ctx.tier, ctx.seed, acc,
        rule='product enumeration of cases x the complete threshold set of each case x 9 routes (py/c x distance, warping_paths, '
             'warping_paths keep_int_repr, compact, distance_matrix); non-trivial = some threshold or the Euclidean bound lies below the '
             'accumulated optimum of an in-band cell (so pruning has something to cut)',
        bounds={'alphabet': list(univ.alphabet(univ.BASE3, ctx.seed)),
                'U4': 'all pairs of 2-vector series over a 2-letter alphabet, lengths 1..3 (sum <= 5; 6 in thorough) x window{None,1} x psi{None,1} x inner: max_dist in every gap and use_pruning through dtw_ndim distance / warping_paths / C matrix', 'U1': 'all pairs len 1..%d x window{None,1,2} x penalty{None,.5} x max_step{None, 2|a| (separates squared from unsquared comparisons)} x inner x 9 psi forms (symmetric and one-sided, begin and end)' % (4 if ctx.thorough else 3),
                'U3': 'all shapes up to %d x every window x 13 psi forms x catalogue values' % (6 if ctx.thorough else 5),
                'thresholds': 'one in every gap (> 1e-6 relative) between consecutive distinct values of {cell optima, distance, Euclidean bound}, one below, one above',
                'use_pruning': 'only where C03 calls the bound valid: no max_step, and no penalty or equal lengths; alone and combined with every second threshold as max_dist (judged only when the distance is below the threshold: above it the documentation lets use_pruning override max_dist)'},
        assumptions=['oracle is the same routine without max_dist/use_pruning (its own correctness is C01/C02/C04)',
                     'thresholds within 1e-9 relative of the unbounded value are not judged (rounding-width neighbourhood)'],
        t0=ctx.t0)


def replay(ctx, rec):
    snap = build.snapshot_ext()
    build.activate(snap)
    v = rec.get('first', rec)
    case = core.unjson(v['case'])
    case['s1'] = tuple(case['s1']); case['s2'] = tuple(case['s2'])
    m = case.pop('max_dist', None)
    pr = case.pop('use_pruning', None)
    acc = core.Acc()
    check_case(acc, Routes(), case, bool(pr))
    for x in acc.viol:
        print('  ', x['api'], x['case'], 'expected', x['expected'], 'observed', x['observed'])
    if acc.nviol:
        print('VIOLATION property=%s replay=-' % PROP)
        return 1
    print('no violation')
    return 0
