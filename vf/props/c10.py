"""C10 - identity, non-negativity, symmetry, option monotonicity (oracle-free metamorphic laws).

For every unordered series pair the complete table of distances over a settings grid is computed in
both argument orders and both engines; every law is then checked on every pair of comparable
grid points (window w/w+1, psi p/p+1 per component, penalty p<p', max_step m<m', swapped arguments).
"""
import array
import itertools

from .. import build, core, oracles, univ
from ..core import inf

PROP = 'C10'
INNERS = {'sq': 'squared euclidean', 'eu': 'euclidean'}
TOL = 1e-12


def le(a, b):
    if a == inf and b == inf:
        return True
    return a <= b + TOL * max(1.0, abs(b) if b != inf else 1.0)


def psi_grid(r, c):
    """None, ints, {0,1}^4 and single 2s; entries <= length; no degenerate combos."""
    out = [None]
    for p in (1, 2):
        if p <= min(r, c) and not oracles.psi_degenerate(p, r, c):
            out.append(p)
    seen = set()
    cand = list(itertools.product((0, 1), repeat=4)) + [(2, 0, 0, 0), (0, 2, 0, 0), (0, 0, 2, 0), (0, 0, 0, 2), (1, 2, 0, 0), (0, 0, 1, 2)]
    for t in cand:
        if t == (0, 0, 0, 0) or t in seen:
            continue
        if max(t[0], t[1]) > r or max(t[2], t[3]) > c or oracles.psi_degenerate(t, r, c):
            continue
        seen.add(t)
        out.append(t)
    return out


def swap_psi(p):
    if p is None or isinstance(p, int):
        return p
    return (p[2], p[3], p[0], p[1])


def as_tuple(p):
    return oracles.norm_psi(p)


class Eng:
    def __init__(self):
        import numpy as np
        from dtaidistance import dtw, dtw_ndim, ed
        self.np, self.dtw, self.dtw_ndim, self.ed = np, dtw, dtw_ndim, ed
        assert dtw.dtw_cc is not None

    def dist(self, eng, nd, s1, s2, w, pen, psi, ms, inner):
        kw = {'inner_dist': INNERS[inner]}
        if w is not None:
            kw['window'] = w
        if pen is not None:
            kw['penalty'] = pen
        if psi is not None:
            kw['psi'] = psi
        if ms is not None:
            kw['max_step'] = ms
        if nd == 1:
            if eng == 'py':
                return core.call(self.dtw.distance, list(s1), list(s2), **kw)
            return core.call(self.dtw.distance_fast, array.array('d', s1), array.array('d', s2), **kw)
        a1, a2 = self.np.array(s1, dtype=float), self.np.array(s2, dtype=float)
        if eng == 'py':
            return core.call(self.dtw_ndim.distance, a1, a2, **kw)
        return core.call(self.dtw_ndim.distance_fast, a1, a2, **kw)


WINS = (None, 1, 2)
PENS = (None, 0.5, 2)
MSS = (None, 1.2)


def table(E, eng, nd, s1, s2, acc, wins):
    T = {}
    for w in wins:
        for pen in PENS:
            for ms in MSS:
                for inner in ('sq', 'eu'):
                    for psi in psi_grid(len(s1), len(s2)):
                        T[(w, pen, psi, ms, inner)] = E.dist(eng, nd, s1, s2, w, pen, psi, ms, inner)
                        acc.trans()
    return T


def check_pair(acc, E, nd, s1, s2, wins):
    r, c = len(s1), len(s2)
    nontrivial = False
    for eng in ('py', 'c'):
        T12 = table(E, eng, nd, s1, s2, acc, wins)
        T21 = table(E, eng, nd, s2, s1, acc, wins) if s1 != s2 else T12

        def viol(law, key, exp, got, extra=None):
            w, pen, psi, ms, inner = key
            p = as_tuple(psi)
            tags = {'law': law, 'ndim': nd, 'inner': inner, 'window_lt_full': bool(w and w < max(r, c)), 'penalty_on': bool(pen),
                    'psi_begin': bool(p[0] or p[2]), 'psi_end': bool(p[1] or p[3]), 'max_step_on': bool(ms), 'equal_len': r == c}
            case = {'s1': s1, 's2': s2, 'ndim': nd, 'window': w, 'penalty': pen, 'psi': psi, 'max_step': ms, 'inner': inner}
            if extra:
                case.update(extra)
            acc.violation(law, 'distance', eng, tags, case, exp, repr(got) if isinstance(got, core.Exc) else got)

        for key, d in T12.items():
            w, pen, psi, ms, inner = key
            acc.valid()
            if isinstance(d, core.Exc) or d != d or d < 0:
                viol('nonneg', key, '>= 0', d)
                continue
            if s1 == s2 and d != 0:
                viol('identity', key, 0.0, d)
            # symmetry
            d2 = T21.get((w, pen, swap_psi(psi), ms, inner))
            if d2 is not None:
                acc.valid()
                if isinstance(d2, core.Exc) or not (d == d2 or core.ulp_close(d, d2, 4, 1e-12 if nd > 1 else 0.0)):
                    viol('symmetry', key, d, d2, {'swapped_psi': swap_psi(psi)})
            # window monotone
            if w is not None:
                nw = w + 1 if (w + 1) in wins else None
                if nw is None or nw in wins:
                    dn = T12.get((nw, pen, psi, ms, inner))
                    if dn is not None and not isinstance(dn, core.Exc):
                        acc.valid()
                        if not le(dn, d):
                            viol('window_monotone', key, '<= %r' % d, dn, {'window_larger': nw})
                        if dn != d:
                            nontrivial = True
            # penalty monotone
            for pa, pb in ((None, 0.5), (0.5, 2)):
                if pen == pa:
                    dn = T12.get((w, pb, psi, ms, inner))
                    if dn is not None and not isinstance(dn, core.Exc):
                        acc.valid()
                        if not le(d, dn):
                            viol('penalty_monotone', key, '>= %r' % d, dn, {'penalty_larger': pb})
                        if dn != d:
                            nontrivial = True
            # max_step monotone
            if ms is not None:
                dn = T12.get((w, pen, psi, None, inner))
                if dn is not None and not isinstance(dn, core.Exc):
                    acc.valid()
                    if not le(dn, d):
                        viol('max_step_monotone', key, '<= %r' % d, dn, {'max_step_relaxed': None})
                    if dn != d:
                        nontrivial = True
            # psi monotone: every single-component increment present in the grid, and None/int forms
            p = as_tuple(psi)
            for k in range(4):
                q = list(p)
                q[k] += 1
                q = tuple(q)
                for cand in (q, ):
                    dn = T12.get((w, pen, cand, ms, inner))
                    if dn is None and q == (1, 1, 1, 1):
                        dn = T12.get((w, pen, 1, ms, inner))
                    if dn is not None and not isinstance(dn, core.Exc):
                        acc.valid()
                        if not le(dn, d):
                            viol('psi_monotone', key, '<= %r' % d, dn, {'psi_larger': q})
                        if dn != d:
                            nontrivial = True
            # window 1, equal lengths == Euclidean distance
            if w == 1 and r == c and psi is None and ms is None:
                e = core.call(E.ed.distance, E.np.array(s1, dtype=float) if nd > 1 else list(s1),
                              E.np.array(s2, dtype=float) if nd > 1 else list(s2), inner_dist=INNERS[inner], use_ndim=nd > 1)
                acc.valid()
                if isinstance(e, core.Exc) or not core.ulp_close(float(e), d, 4, 1e-12 if nd > 1 else 0.0):
                    viol('window1_is_euclidean', key, d, e)
            acc.outcome(d)
    return nontrivial


def check_matrix(acc, E, sers, eng):
    """Square distance matrix is symmetric with zero diagonal and M[i][j] == distance(s_j, s_i) (mirroring is valid)."""
    np = E.np
    data = [np.array(s, dtype=float) for s in sers]
    M = core.call(E.dtw.distance_matrix, data, use_c=(eng == 'c'))
    acc.trans()
    tags = {'law': 'matrix_symmetric', 'ndim': 1}
    case = {'series': sers}
    if isinstance(M, core.Exc):
        acc.violation('matrix_symmetric', 'distance_matrix', eng, tags, case, 'a matrix', repr(M))
        return
    n = len(sers)
    for i in range(n):
        for j in range(n):
            acc.valid()
            if i == j:
                ok = M[i, j] == 0
                exp = 0.0
            else:
                exp = E.dist(eng, 1, sers[j], sers[i], None, None, None, None, 'sq')
                ok = M[i, j] == M[j, i] and not isinstance(exp, core.Exc) and core.ulp_close(float(M[i, j]), exp, 4)
            if not ok:
                acc.violation('matrix_symmetric', 'distance_matrix', eng, tags, dict(case, i=i, j=j), repr(exp), float(M[i, j]))


def universe(tier, seed, shard, nshards):
    thorough = tier == 'thorough'
    A = univ.alphabet(univ.BASE3, seed)
    sers = univ.series(A, 1, 4 if thorough else 3)
    idx = 0
    for i, s1 in enumerate(sers):
        for s2 in sers[i:]:
            if thorough and max(len(s1), len(s2)) > 3 and len(s1) + len(s2) > 7:
                continue
            idx += 1
            if idx % nshards != shard:
                continue
            yield 'U1-values', 1, s1, s2, WINS
    A2 = univ.alphabet(univ.BASE2, seed)
    sers2 = univ.series_nd(A2, 2, 1, 2)
    for i, s1 in enumerate(sers2):
        for s2 in sers2[i:]:
            idx += 1
            if idx % nshards != shard:
                continue
            yield 'U4-ndim', 2, s1, s2, WINS
    L = 8 if thorough else 5
    cat = univ.CAT_PAIRS_THOROUGH if thorough else univ.CAT_PAIRS_QUICK
    for r in range(1, L + 1):
        for c in range(r, L + 1):
            if c <= 3:
                continue
            for (k1, k2) in cat:
                idx += 1
                if idx % nshards != shard:
                    continue
                yield 'U3-shapes', 1, univ.catalogue(r, A, k1), univ.catalogue(c, A, k2), tuple([None] + list(range(1, c + 1)))


def worker(acc, shard, nshards, tier, seed):
    E = Eng()
    global PENS
    for sub, nd, s1, s2, wins in universe(tier, seed, shard, nshards):
        nt = check_pair(acc, E, nd, s1, s2, wins)
        acc.case(sub, nontrivial=nt)
        if not acc.samples or acc.states % 101 == 1:
            acc.sample({'s1': s1, 's2': s2, 'ndim': nd, 'windows': wins})
    # distance-matrix mirroring on all 3-collections of short series (sharded)
    A = univ.alphabet(univ.BASE3, seed)
    short = univ.series(A, 1, 2)
    idx = 0
    for trip in itertools.product(short, repeat=3):
        idx += 1
        if idx % nshards != shard:
            continue
        for eng in ('py', 'c'):
            check_matrix(acc, E, trip, eng)
        acc.case('U5-matrix', nontrivial=len(set(trip)) > 1)


def run(ctx):
    snap = build.snapshot_ext()
    build.activate(snap)
    acc = core.run_sharded(worker, extra=(ctx.tier, ctx.seed))
    return core.finish(
        PROP, ctx.tier, ctx.seed, acc,
        rule='every unordered series pair x the complete settings grid (window x penalty{None,.5,2} x max_step{None,1.2} x inner x psi grid) in both '
             'argument orders and both engines; every comparable pair of grid points is checked; non-trivial = some related pair of calls returned different values',
        bounds={'alphabet': list(univ.alphabet(univ.BASE3, ctx.seed)),
                'U1': 'all unordered pairs with lengths 1..%d%s, windows {None,1,2}' % ((4, ' (sum <= 7 when a length is 4)') if ctx.thorough else (3, '')),
                'U3': 'catalogue pairs for all shapes r <= c <= %d with every window 1..c and None' % (8 if ctx.thorough else 5),
                'U4': 'ndim 2, lengths 1..2 over a 2-letter alphabet',
                'U5': 'all ordered triples of series with lengths 1..2: square distance matrix symmetric, zero diagonal, entries equal the swapped-argument distance',
                'psi_grid': 'None, 1, 2, {0,1}^4, single 2s (entries <= length, no empty-alignment combinations)'},
        assumptions=['oracle-free: only relations between implementation results are checked', 'tolerance 4 ulp for equalities, 1e-12 relative slack for inequalities'],
        t0=ctx.t0)


def replay(ctx, rec):
    snap = build.snapshot_ext()
    build.activate(snap)
    v = rec.get('first', rec)
    case = core.unjson(v['case'])
    E = Eng()
    acc = core.Acc()
    if 'series' in case:
        for eng in ('py', 'c'):
            check_matrix(acc, E, [tuple(s) for s in case['series']], eng)
    else:
        nd = case.get('ndim', 1)
        s1 = tuple(tuple(x) if isinstance(x, list) else x for x in case['s1'])
        s2 = tuple(tuple(x) if isinstance(x, list) else x for x in case['s2'])
        wins = tuple([None] + list(range(1, max(len(s1), len(s2)) + 1)))
        check_pair(acc, E, nd, min(s1, s2), max(s1, s2), wins)
    seen = set()
    for x in acc.viol:
        k = (x['check'], x['engine'])
        if k in seen:
            continue
        seen.add(k)
        print('  ', x['check'], x['engine'], x['case'], 'expected', x['expected'], 'observed', x['observed'])
    if acc.nviol:
        print('VIOLATION property=%s replay=-' % PROP)
        return 1
    print('no violation')
    return 0
