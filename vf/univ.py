"""Alphabets and universes shared by the input x configuration explorers.

VERIF_SEED never drives sampling: it selects one exactness-preserving relabelling of the
value alphabet from a fixed table.  Every run is exhaustive over the universe its seed selects.
"""
import itertools

BASE3 = (0.0, 1.0, 2.5)
BASE2 = (0.0, 1.5)
BASEPM = (-2.0, -0.5, 1.0)
# (a, b): x -> a*x + b keeps dyadic rationals dyadic
RELABEL = [(1.0, 0.0), (0.5, 0.0), (2.0, -1.0), (-1.0, 3.0), (1.0, -1.0), (-0.5, 0.0), (2.0, 3.0), (1.0, 3.0)]


def relabel(seed):
    return RELABEL[seed % len(RELABEL)]


def max_step2(seed):
    """A max_step that separates every squared/unsquared confusion on the BASE3 differences {1, 1.5, 2.5}*|a|:
    with m = 2|a| there is a difference d (1.5|a|) with d <= m < d*d/|a|... concretely for |a| = 1: d = 1.5 <= 2 < 2.25 = d^2
    (a kernel comparing d^2 with m differs), and d = 2.5 with m < d <= m^2 (a kernel comparing d with m^2 differs);
    1.2 separates none of them (1 | 1.5 is split by 1.2 and by 1.44 alike)."""
    a, b = relabel(seed)
    return 2.0 * abs(a)


def alphabet(base, seed):
    a, b = relabel(seed)
    return tuple(a * x + b for x in base)


def series(alpha, minlen, maxlen):
    out = []
    for l in range(minlen, maxlen + 1):
        out.extend(itertools.product(alpha, repeat=l))
    return out


def series_nd(alpha, ndim, minlen, maxlen):
    pts = list(itertools.product(alpha, repeat=ndim))
    out = []
    for l in range(minlen, maxlen + 1):
        out.extend(itertools.product(pts, repeat=l))
    return out


def psi_options(r, c, vals=('0', '1', 'len'), ints=(1, 2), include_none=True):
    """All psi forms for an r x c problem: None, single ints, 4-tuples over vals
    (entries <= the length they relax; degenerate empty-alignment combinations excluded)."""
    from .oracles import psi_degenerate
    out = []
    if include_none:
        out.append(None)
    for p in ints:
        if p <= min(r, c) and not psi_degenerate(p, r, c):
            out.append(p)

    def dom(n):
        s = set()
        for v in vals:
            x = n if v == 'len' else int(v)
            if x <= n:
                s.add(x)
        return sorted(s)
    for t in itertools.product(dom(r), dom(r), dom(c), dom(c)):
        if t == (0, 0, 0, 0):
            continue
        if psi_degenerate(t, r, c):
            continue
        out.append(t)
    return out


def windows(r, c, extra=1):
    return [None] + list(range(1, max(r, c) + 1 + extra))


def catalogue(l, alpha, k):
    """k-th catalogue series of length l over a 3-letter alphabet (a0 < a1 < a2 by index, not value)."""
    a0, a1, a2 = alpha
    if k == 0:   # ramp
        return tuple(alpha[min(2, i if l <= 3 else (i * 3) // l)] for i in range(l))
    if k == 1:   # peak at the beginning
        return tuple(a2 if i == 0 else a0 for i in range(l))
    if k == 2:   # peak at the end
        return tuple(a2 if i == l - 1 else a0 for i in range(l))
    if k == 3:   # alternating
        return tuple(a1 if i % 2 else a0 for i in range(l))
    if k == 4:   # constant
        return tuple(a1 for i in range(l))
    if k == 5:   # generic: pairwise distinct differences as far as the alphabet allows
        pat = (a0, a2, a1, a1, a0, a2, a2, a0)
        return tuple(pat[i % len(pat)] for i in range(l))
    if k == 6:   # descending
        return tuple(alpha[max(0, 2 - i)] for i in range(l))
    if k == 7:   # valley
        return tuple(a0 if i == l // 2 else a2 for i in range(l))
    raise IndexError(k)


CAT_PAIRS_QUICK = [(0, 0), (0, 3), (1, 2), (3, 4), (5, 0), (5, 5)]
CAT_PAIRS_THOROUGH = CAT_PAIRS_QUICK + [(2, 1), (6, 0), (7, 5), (5, 7), (4, 4), (6, 3)]


def shard_of(i, shard, nshards):
    return i % nshards == shard
